"""C06 - deserialising then serialising any parseable stream reproduces its bytes (bounded stand-in).

Contract (written from the property statement, checked natively on the real Deserialiser / Serialiser /
BitstreamReader / BitstreamWriter / parse_stream of the tree under check):

  requires  x is a byte string and   with Deserialiser(BitstreamReader(BytesIO(x))) as des: parse_stream(des, State())
            returns normally  ("x is parsed to completion"; any exception = x is outside the domain, counted per class)
  ensures A serialising des.context (Serialiser(BitstreamWriter(f), context); parse_stream(ser, State()); flush) returns
            normally and f holds exactly the bytes x (every 4th case additionally with vc2_default_values supplied)
  ensures B deserialising the bytes written yields a description equal to the one serialised: `d2 == d1` with the
            project's own equality, and the same canonical rendering (dictionary type names, keys, list lengths, int /
            bool / bytes / bitarray leaves) as a rendering of d1 taken before it was handed to the serialiser

The inputs are produced by an INDEPENDENT bit packer and stream generator written from the syntax of SMPTE ST 2042-1
(parse_info 10.5.1, sequence_header 11, picture_parse 12, ld/hq slices 13.5.3-4, fragments 14, exp-Golomb A.4) - not
by the code under check.  Slice payloads, padding bits, prefix bytes and auxiliary bytes are arbitrary bit patterns
(every pattern is a parseable slice), so coefficients dangling over the end of a bounded block, unused block bits,
clamped slice_y_length values and non-zero padding occur in almost every picture.

clause/domain -> families (E = exhaustive over the stated small scope, R = seeded sample; sizes quick / thorough)
  E1 parse codes      all 256 parse codes x 4 (version, depth) configurations x {1,4} payload draws; the unit body follows
                      the standard's parse-code predicates (odd picture/fragment codes that are neither LD nor HQ, every
                      auxiliary code, reserved codes without a body, end-of-sequence in the middle)
  E2 LD slice bits    1x1-slice low-delay picture, slice of 1 byte: all 256 contents x 3 picture shapes; 2 bytes: all 65536
                      contents (thorough) / a stride sample of 2048 (quick) x 2 shapes
  E3 HQ lengths       slice_{y,c1,c2}_length in {0,1,2}^3 x slice_size_scaler {0,1,2} x prefix bytes {0,1} x {2,8} payload draws
  E4 header indices   each index field of the sequence header swept over its in-range AND out-of-range values
                      (base_video_format 0..24, frame rate 0..20, pixel aspect 0..8, signal range 0..8, colour spec 0..8,
                      primaries / matrix / transfer function 0..6, sampling 0..4, scan 0..3, coding mode 0..3, version 0..4)
  E0 degenerate       the empty byte string, bare end-of-sequence units, header-only and padding-only sequences
  E5 aux/padding      every auxiliary code and the padding code x next_parse_offset 13..45 (0..32 payload bytes), plus
                      payloads of 255..257, 1023..1025 and 4095..4097 bytes for three of the codes
  E5n short offsets   the same codes x next_parse_offset 0..12 (remaining length negative) - own clause, own report cap
  E6 LD slice sizes   slice_bytes numerator 0..24 x denominator 1..4 x 3 slice grids x {picture, fragments}: zero-byte
                      slices, 1-byte slices, clamped lengths
  E7 padding bits     sequence-header end and transform-parameter end at every bit alignment 0..7 x ALL padding patterns
  E8 large values     exp-Golomb magnitudes 2^k-1, 2^k, 2^k+1 for k up to 2047 (both signs) as first HQ / LD coefficient,
                      whole or cut off by the end of the bounded block, and as unsigned header / quant-matrix values
  R1 structured       seeded random multi-sequence streams: 1..3 sequences, repeated headers, pictures and fragment runs
                      (LD / HQ / neither), versions 1..3+, asymmetric transforms, custom quant matrices, arbitrary parse
                      offsets / prefixes / picture numbers / fragment offsets, out-of-range indices, huge header values
                      (3000 / 40000 streams)
  R2 mutated          R1 streams after 1..3 byte/bit-level or unit-level mutations (bit flips, zeroed / 0xFF runs, parse
                      code overwrites, unit drop / duplicate / swap, inserted bytes); only those still parsed to
                      completion count (4000 / 80000 attempts, measured yield reported)
Bounds: frame at most 16x8 samples, at most 6 slices per picture, slices at most ~520 bytes, streams at most a few KB;
per-case CPU-time limit CASE_SECONDS (a case over the limit is 'abandoned', never a violation); at most 8 worker processes, each with an address-space cap 2 GiB above its start size.
"""
import io
import itertools
import multiprocessing
import random
import signal

WORKERS = 8
CASE_SECONDS = 1.0  # CPU seconds of the worker process (ITIMER_PROF): independent of machine load
CHUNK = 64
WORKER_EXTRA_BYTES = 2 << 30  # address-space head room of a worker process
D3_KEY = "C06-D3-negative-length-bytes"  # attribution key for the negative-remaining-length asymmetry (see _explained_by_short_offset)

CLAUSE_A = "A: serialising the deserialised description reproduces the input bytes"
CLAUSE_B = "B: re-deserialising the serialised bytes yields an equal description"


# ======================================================================================================================
# independent bit packer (A.3 / A.4 of the standard)
# ======================================================================================================================
class Bits(object):
    __slots__ = ("b",)

    def __init__(self):
        self.b = []

    def bit(self, v):
        self.b.append(1 if v else 0)
        return self

    def nbits(self, n, v):  # A.3.3: n-bit unsigned, most significant bit first
        assert 0 <= v < (1 << n) or (n == 0 and v == 0)
        self.b.extend((v >> i) & 1 for i in range(n - 1, -1, -1))
        return self

    def uint(self, v):  # A.4.3: binary of v+1 without its leading 1, every bit preceded by a 0 'follow' bit, then a 1
        assert v >= 0
        n = v + 1
        for i in range(n.bit_length() - 2, -1, -1):
            self.b.append(0)
            self.b.append((n >> i) & 1)
        self.b.append(1)
        return self

    def sint(self, v):  # A.4.4: magnitude, then a sign bit (1 = negative) if non-zero
        self.uint(abs(v))
        if v != 0:
            self.b.append(1 if v < 0 else 0)
        return self

    def raw(self, bits):
        self.b.extend(bits)
        return self

    def octets(self, bs):
        for x in bytearray(bs):
            self.nbits(8, x)
        return self

    def pad(self, rng):  # up to the next byte boundary with arbitrary bits
        k = (-len(self.b)) % 8
        return self.raw(fill(rng, k, "rand"))

    def tobytes(self):
        assert len(self.b) % 8 == 0
        return int("1" + "".join(map(str, self.b)), 2).to_bytes(len(self.b) // 8 + 1, "big")[1:] if self.b else b""


STYLES = ("rand", "rand", "rand", "ones-heavy", "zeros-heavy", "zeros", "ones", "0101", "1010", "zero-run")


def fill(rng, k, style):
    """k arbitrary bits in one of several textures (any texture is a parseable slice payload)."""
    if k <= 0:
        return []
    if style == "rand":
        v = rng.getrandbits(k)
    elif style == "ones-heavy":
        v = rng.getrandbits(k) | rng.getrandbits(k) | rng.getrandbits(k)
    elif style == "zeros-heavy":
        v = rng.getrandbits(k) & rng.getrandbits(k) & rng.getrandbits(k)
    elif style == "zeros":
        v = 0
    elif style == "ones":
        v = (1 << k) - 1
    elif style == "0101":
        v = int(("01" * k)[:k], 2)
    elif style == "1010":
        v = int(("10" * k)[:k], 2)
    else:  # zero-run: random with one long run of zeros (a very long exp-Golomb code)
        v = rng.getrandbits(k)
        a = rng.randrange(k)
        n = rng.randrange(1, k - a + 1)
        v &= ~(((1 << n) - 1) << (k - a - n))
    return [int(c) for c in format(v, "0%db" % k)]


def intlog2(n):  # 5.5.3: ceil(log2(n)) for n >= 1
    return (n - 1).bit_length()


# ======================================================================================================================
# stream generator written from the standard's syntax
# ======================================================================================================================
def classify(code):
    """(kind, mode) of a parse code from the predicates of 10.5.2 (Table 10.1 generalised)."""
    mode = "ld" if (code & 0xF8) == 0xC8 else "hq" if (code & 0xF8) == 0xE8 else None
    if code == 0x00:
        return "seq_header", None
    if code == 0x10:
        return "end", None
    if (code & 0x8C) == 0x88:
        return "picture", mode
    if (code & 0x0C) == 0x0C:
        return "fragment", mode
    if (code & 0xF8) == 0x20:
        return "aux", None
    if code == 0x30:
        return "padding", None
    return "none", None


class GenState(object):
    """What a decoder remembers inside one sequence (reset at end of sequence, 10.4.1)."""

    def __init__(self):
        self.reset()

    def reset(self):
        self.version = None  # no sequence header seen yet
        self.sx = self.sy = None
        self.ld = None  # (numerator, denominator) of the latest LD slice_parameters
        self.hq = None  # (prefix_bytes, size_scaler) of the latest HQ slice_parameters
        self.primed = set()  # modes whose transform parameters arrived in a fragment / picture


def wild_uint(rng, small):
    """Mostly a small value, sometimes a large or huge one (only for fields that do not size anything)."""
    r = rng.random()
    if r < 0.8:
        return rng.randrange(small)
    if r < 0.9:
        return rng.randrange(1 << 16)
    if r < 0.97:
        return rng.getrandbits(rng.choice((31, 32, 33, 63, 64, 65)))
    return rng.getrandbits(rng.choice((128, 257, 300, 600)))


def random_sh_spec(rng, wild=True):
    """Field values of a sequence header (11.1-11.4).  None = 'custom flag clear'.  The frame is always custom and tiny."""
    idx = (lambda hi: rng.choice([0, 0, 1, 2, rng.randrange(hi), rng.randrange(hi), hi + rng.randrange(12), wild_uint(rng, 40)])) if wild else (lambda hi: rng.randrange(hi))
    opt = lambda f: f() if rng.random() < 0.5 else None
    w = lambda: wild_uint(rng, 2000) if wild else rng.randrange(2000)
    return {
        "major": rng.choice([1, 2, 2, 3, 3, 3, wild_uint(rng, 5)]) if wild else rng.choice([1, 2, 3]),
        "minor": w(), "profile": w(), "level": w(),
        "base": rng.choice([rng.randrange(23), rng.randrange(23), 23 + rng.randrange(8), wild_uint(rng, 30)]) if wild else rng.randrange(23),
        "frame_size": (rng.choice([0, 1, 2, 3, 4, 5, 8, 11, 16]), rng.choice([0, 1, 2, 3, 4, 6, 8])),
        "cdf": opt(lambda: idx(3)),
        "scan": opt(lambda: idx(2)),
        "frame_rate": opt(lambda: (idx(12), w(), w())),
        "par": opt(lambda: (idx(7), w(), w())),
        "clean": opt(lambda: (w(), w(), w(), w())),
        "sig": opt(lambda: (idx(5), w(), w(), w(), w())),
        "color_spec": opt(lambda: (idx(5), opt(lambda: idx(4)), opt(lambda: idx(4)), opt(lambda: idx(4)))),
        "pcm": rng.choice([0, 0, 1, 1, idx(2)]),
    }


def encode_sh(s):
    b = Bits()
    b.uint(s["major"]).uint(s["minor"]).uint(s["profile"]).uint(s["level"])  # 11.2.1
    b.uint(s["base"])
    fs = s["frame_size"]  # 11.4.3
    b.bit(fs is not None)
    if fs is not None:
        b.uint(fs[0]).uint(fs[1])
    for key in ("cdf", "scan"):  # 11.4.4, 11.4.5
        b.bit(s[key] is not None)
        if s[key] is not None:
            b.uint(s[key])
    for key in ("frame_rate", "par"):  # 11.4.6, 11.4.7: index 0 is followed by numerator and denominator
        v = s[key]
        b.bit(v is not None)
        if v is not None:
            b.uint(v[0])
            if v[0] == 0:
                b.uint(v[1]).uint(v[2])
    v = s["clean"]  # 11.4.8
    b.bit(v is not None)
    if v is not None:
        for x in v:
            b.uint(x)
    v = s["sig"]  # 11.4.9: index 0 is followed by four values
    b.bit(v is not None)
    if v is not None:
        b.uint(v[0])
        if v[0] == 0:
            for x in v[1:]:
                b.uint(x)
    v = s["color_spec"]  # 11.4.10: index 0 is followed by primaries, matrix, transfer function (flag + index each)
    b.bit(v is not None)
    if v is not None:
        b.uint(v[0])
        if v[0] == 0:
            for x in v[1:]:
                b.bit(x is not None)
                if x is not None:
                    b.uint(x)
    b.uint(s["pcm"])
    return b


def random_tp_spec(rng, mode, wild=True):
    """Transform parameters (12.4): mode is 'ld', 'hq' or None (a picture/fragment code that is neither)."""
    depth = rng.choice([0, 0, 1, 1, 2, 3])
    ho = rng.choice([None, None, 0, 1, 2])  # None = asym_transform_flag clear
    sx, sy = rng.choice([(1, 1), (1, 1), (2, 1), (1, 2), (3, 1), (2, 2), (3, 2), (0, 1), (1, 0), (2, 3)])
    t = {"wavelet": wild_uint(rng, 8) if wild else rng.randrange(7), "depth": depth, "wavelet_ho": rng.choice([None, wild_uint(rng, 8) if wild else rng.randrange(7)]), "depth_ho": ho,
         "sx": sx, "sy": sy, "qm": rng.random() < 0.4, "qm_draw": rng.getrandbits(32)}
    if mode == "ld":
        den = rng.choice([1, 1, 1, 2, 3, 7])
        num = rng.choice([0, 1, 2, 3, 5, 8, 13, 21, 34, rng.randrange(1, 40), rng.randrange(1, 40), 130]) * rng.choice([1, 1, den])
        t["ld"] = (num, den)
    if mode == "hq":
        t["hq"] = (rng.choice([0, 0, 0, 1, 2, 5]), rng.choice([0, 1, 1, 1, 2, 3]))
    return t


def encode_tp(t, gs, mode):
    b = Bits()
    b.uint(t["wavelet"]).uint(t["depth"])
    ho = 0
    if gs.version >= 3:  # 12.4.4.1 extended transform parameters exist from major version 3
        b.bit(t["wavelet_ho"] is not None)
        if t["wavelet_ho"] is not None:
            b.uint(t["wavelet_ho"])
        b.bit(t["depth_ho"] is not None)
        if t["depth_ho"] is not None:
            b.uint(t["depth_ho"])
            ho = t["depth_ho"]
    b.uint(t["sx"]).uint(t["sy"])  # 12.4.5.2
    gs.sx, gs.sy = t["sx"], t["sy"]
    if mode == "ld":
        b.uint(t["ld"][0]).uint(t["ld"][1])
        gs.ld = t["ld"]
    if mode == "hq":
        b.uint(t["hq"][0]).uint(t["hq"][1])
        gs.hq = t["hq"]
    b.bit(t["qm"])  # 12.4.5.3: one value for the DC band, one per horizontal-only level, three per 2-D level
    if t["qm"]:
        qr = random.Random(t["qm_draw"])
        vals = t.get("qm_values") or [wild_uint(qr, 64) for _ in range((1 if ho == 0 else 1 + ho) + 3 * t["depth"])]
        for x in vals:
            b.uint(x)
    return b


def ld_slice_bits(rng, gs, n, tags):
    """13.5.3: slice number n occupies slice_bytes(n) whole bytes, any content.  A zero-byte slice still has its 7-bit
    qindex and a length field read from the following bytes (intlog2 of a negative number: 4 bits in this implementation;
    used only to keep the generated stream aligned, a wrong guess merely makes the stream unparseable)."""
    num, den = gs.ld
    nbytes = ((n + 1) * num) // den - (n * num) // den
    if nbytes == 0:
        tags.add("zero-byte LD slice")
        return fill(rng, 11, "rand")
    if nbytes == 1:
        tags.add("1-byte LD slice")
    return fill(rng, 8 * nbytes, rng.choice(STYLES))


def hq_slice_bits(rng, gs, tags, lengths=None):
    """13.5.4: prefix bytes, qindex, then three (length byte, scaler*length bytes) blocks, any content."""
    prefix, scaler = gs.hq
    b = Bits()
    b.raw(fill(rng, 8 * prefix, "rand")).nbits(8, rng.randrange(256))
    for c in range(3):
        ln = lengths[c] if lengths else rng.choice([0, 0, 1, 1, 2, 3, 5, 9, rng.randrange(20), 70 if rng.random() < 0.1 else 4])
        b.nbits(8, ln).raw(fill(rng, 8 * scaler * ln, rng.choice(STYLES)))
        if scaler * ln == 0:
            tags.add("empty HQ block")
    return b.b


def slices_bits(rng, gs, mode, first, count, tags):
    out = []
    for n in range(first, first + count):
        if mode == "ld":
            out.extend(ld_slice_bits(rng, gs, n, tags))
        elif mode == "hq":
            out.extend(hq_slice_bits(rng, gs, tags))
    return out


def picture_body(rng, gs, mode, tags, tp=None):
    b = Bits().nbits(32, rng.choice([0, 1, rng.getrandbits(32), 0xFFFFFFFF]))  # 12.2 picture number
    b.raw(encode_tp(tp or random_tp_spec(rng, mode), gs, mode).b).pad(rng)  # 12.3: byte_align after the parameters
    b.raw(slices_bits(rng, gs, mode, 0, gs.sx * gs.sy, tags))
    if mode:
        gs.primed.add(mode)
    return b


def fragment_body(rng, gs, mode, tags, with_slices, tp=None, conformant_offsets=False):
    b = Bits().nbits(32, rng.getrandbits(32)).nbits(16, rng.choice([0, rng.getrandbits(16)]))  # 14.2 picture number, data length
    can_slice = with_slices and gs.sx and gs.sy and (mode is None or (mode in gs.primed))
    if not can_slice:
        b.nbits(16, 0)
        b.raw(encode_tp(tp or random_tp_spec(rng, mode), gs, mode).b)
        if mode:
            gs.primed.add(mode)
        return b
    total = max(1, gs.sx * gs.sy)
    count = rng.randrange(1, 5)
    if conformant_offsets or rng.random() < 0.5:
        first = rng.randrange(total)
        xo, yo = first % gs.sx, first // gs.sx
    else:  # unusual offsets: beyond the picture, x offset beyond the row
        xo, yo = rng.choice([0, gs.sx, 7, 200]), rng.choice([0, gs.sy, 9, 65535])
        tags.add("fragment offsets outside the picture")
    b.nbits(16, count).nbits(16, xo).nbits(16, yo)
    b.raw(slices_bits(rng, gs, mode, yo * gs.sx + xo, count, tags))  # 14.4: slices yo*slices_x + xo + s
    return b


def unit_body(rng, gs, code, tags, frag_slices=None, sh=None, payload_len=None):
    """The body following a parse_info with this parse code (10.4.1), or None if it cannot be parsed in this state."""
    kind, mode = classify(code)
    if kind == "seq_header":
        s = sh or random_sh_spec(rng)
        gs.version = s["major"]
        return encode_sh(s)
    if kind in ("aux", "padding"):
        n = rng.choice([0, 1, 2, 7, 30]) if payload_len is None else payload_len
        return Bits().raw(fill(rng, 8 * n, rng.choice(STYLES)))
    if kind == "picture":
        return None if gs.version is None else picture_body(rng, gs, mode, tags)
    if kind == "fragment":
        return None if gs.version is None else fragment_body(rng, gs, mode, tags, rng.random() < 0.7 if frag_slices is None else frag_slices)
    return Bits()  # end of sequence and codes without a data unit


class StreamBuilder(object):
    """Concatenates data units; each starts with a parse_info at a byte boundary (the bits up to the boundary are the
    next parse_info's padding, filled with arbitrary bits)."""

    def __init__(self, rng, wild_offsets=True):
        self.rng = rng
        self.units = []  # [parse_code, body bytes, next override or None]
        self.gs = GenState()
        self.tags = set()
        self.wild = wild_offsets

    def add(self, code, body, next_override=None):
        if body is None:
            return False
        if len(body.b) % 8:
            self.tags.add("unit ends off a byte boundary (arbitrary padding bits)")
        self.units.append([code, body.pad(self.rng).tobytes(), next_override])
        if code == 0x10:
            self.gs.reset()
        return True

    def add_code(self, code, **kw):
        return self.add(code, unit_body(self.rng, self.gs, code, self.tags, **kw))

    def tobytes(self):
        out, prev, self.offsets = b"", 0, []
        rng = self.rng
        for i, (code, body, nxt) in enumerate(self.units):
            kind = classify(code)[0]
            n = nxt if nxt is not None else 0 if kind == "end" else 13 + len(body)
            prefix = 0x42424344
            p = prev
            if self.wild and kind not in ("aux", "padding") and rng.random() < 0.25:  # only auxiliary / padding units are sized by next_parse_offset
                n = rng.choice([0, 1, 12, 13, rng.getrandbits(32), 0xFFFFFFFF])
                self.tags.add("unusual next_parse_offset")
            if self.wild and rng.random() < 0.2:
                p = rng.choice([0, rng.getrandbits(32), 0xFFFFFFFF])
            if self.wild and rng.random() < 0.05:
                prefix = rng.getrandbits(32)
                self.tags.add("wrong parse_info prefix")
            self.offsets.append(len(out))
            out += Bits().nbits(32, prefix).nbits(8, code).nbits(32, n).nbits(32, p).tobytes() + body
            prev = 13 + len(body)
        return out


# ---------------------------------------------------------------------------------------------------------------------
# families: each maps (index, rng, tier) -> (stream bytes, tags) ; sizes in FAMILY_SIZE
# ---------------------------------------------------------------------------------------------------------------------
def plain_sh(version=2, w=4, h=2, **over):
    s = {"major": version, "minor": 0, "profile": 0, "level": 0, "base": 0, "frame_size": (w, h), "cdf": None, "scan": None, "frame_rate": None,
         "par": None, "clean": None, "sig": None, "color_spec": None, "pcm": 0}
    s.update(over)
    return s


def plain_tp(mode, depth=0, ho=None, sx=1, sy=1, ld=(4, 1), hq=(0, 1), qm=False):
    t = {"wavelet": 0, "depth": depth, "wavelet_ho": None, "depth_ho": ho, "sx": sx, "sy": sy, "qm": qm, "qm_draw": 1}
    if mode == "ld":
        t["ld"] = ld
    if mode == "hq":
        t["hq"] = hq
    return t


E1_CONFIGS = [(2, 0, None), (3, 1, 1), (2, 2, None), (3, 0, 2)]  # (major version, dwt_depth, dwt_depth_ho)


def fam_e1(i, rng, tier):
    code, cfg = i % 256, (i // 256) % 4
    version, depth, ho = E1_CONFIGS[cfg]
    sb = StreamBuilder(rng, wild_offsets=False)
    sb.add(0x00, encode_sh(plain_sh(version, 5, 3)))
    sb.gs.version = version
    kind, mode = classify(code)
    for rep in range(2):  # twice: a fragment code first carries the transform parameters, then slices
        if kind == "end":
            sb.add(code, Bits())
        elif kind == "picture":
            sb.add(code, picture_body(rng, sb.gs, mode, sb.tags, tp=plain_tp(mode, depth, ho, sx=2, sy=1, ld=(rng.randrange(1, 9), rng.choice([1, 2])), hq=(rng.randrange(2), rng.randrange(3)), qm=bool(rep))))
        elif kind == "fragment":
            sb.add(code, fragment_body(rng, sb.gs, mode, sb.tags, with_slices=bool(rep), tp=plain_tp(mode, depth, ho, sx=2, sy=2, ld=(rng.randrange(1, 9), rng.choice([1, 2])), hq=(rng.randrange(2), rng.randrange(3)))))
        else:
            sb.add_code(code)
    sb.add(0x10, Bits())
    sb.tags.add("parse code kind: %s/%s" % (kind, mode))
    return sb.tobytes(), sb.tags


E2_SHAPES = [(2, 1, 0), (4, 2, 1), (1, 1, 2)]  # (width, height, dwt_depth)


def fam_e2(i, rng, tier):
    sb = StreamBuilder(rng, wild_offsets=False)
    if i < 256 * 3:
        w, h, depth = E2_SHAPES[i // 256]
        nbytes, content = 1, i % 256
    else:
        j = i - 256 * 3
        per = 65536 if tier != "quick" else 2048
        w, h, depth = E2_SHAPES[j // per]
        nbytes, content = 2, (j % per) * (65536 // per) + (j * 7) % (65536 // per)
    sb.add(0x00, encode_sh(plain_sh(2, w, h)))
    sb.gs.version = 2
    b = Bits().nbits(32, 1).raw(encode_tp(plain_tp("ld", depth, ld=(nbytes, 1)), sb.gs, "ld").b).pad(rng).nbits(8 * nbytes, content)
    sb.add(0xC8, b)
    sb.add(0x10, Bits())
    sb.tags.add("%d-byte LD slice, all contents" % nbytes)
    return sb.tobytes(), sb.tags


def fam_e3(i, rng, tier):
    draws = 2 if tier == "quick" else 8
    i, _draw = divmod(i, draws)
    i, prefix = divmod(i, 2)
    i, scaler = divmod(i, 3)
    lengths = (i % 3, (i // 3) % 3, (i // 9) % 3)
    sb = StreamBuilder(rng, wild_offsets=False)
    sb.add(0x00, encode_sh(plain_sh(3, 4, 2)))
    sb.gs.version = 3
    b = Bits().nbits(32, 2).raw(encode_tp(plain_tp("hq", 1, 1, hq=(prefix, scaler)), sb.gs, "hq").b).pad(rng)
    b.raw(hq_slice_bits(rng, sb.gs, sb.tags, lengths=lengths))
    sb.add(0xE8, b)
    sb.add(0x10, Bits())
    return sb.tobytes(), sb.tags


E4_SWEEPS = ([("base", v) for v in range(25)] + [("cdf", v) for v in range(5)] + [("scan", v) for v in range(4)] + [("frame_rate", v) for v in range(21)]
             + [("par", v) for v in range(9)] + [("sig", v) for v in range(9)] + [("color_spec", v) for v in range(9)] + [("primaries", v) for v in range(7)]
             + [("matrix", v) for v in range(7)] + [("tf", v) for v in range(7)] + [("pcm", v) for v in range(4)] + [("major", v) for v in range(5)])


def fam_e4(i, rng, tier):
    field, v = E4_SWEEPS[i % len(E4_SWEEPS)]
    s = random_sh_spec(rng, wild=False)
    if field in ("base", "cdf", "scan", "pcm", "major"):
        s[field] = v
    elif field in ("frame_rate", "par"):
        s[field] = (v, rng.randrange(100), rng.randrange(100))
    elif field == "sig":
        s[field] = (v, 1, 2, 3, 4)
    elif field == "color_spec":
        s[field] = (v, 1, None, 2)
    else:
        s["color_spec"] = (0, v if field == "primaries" else None, v if field == "matrix" else 1, v if field == "tf" else None)
    sb = StreamBuilder(rng, wild_offsets=False)
    sb.add(0x00, encode_sh(s))
    sb.gs.version = s["major"]
    sb.add_code(rng.choice([0xE8, 0xC8]))  # a picture after the header: the header's end position matters
    sb.add(0x10, Bits())
    sb.tags.add("header index sweep: " + field)
    return sb.tobytes(), sb.tags


E5_CODES = list(range(0x20, 0x28)) + [0x30]
E5_CASES = [(c, n) for n in range(33) for c in E5_CODES] + [(c, n) for n in (255, 256, 257, 1023, 1024, 1025, 4095, 4096, 4097) for c in (0x20, 0x27, 0x30)]
E0_STREAMS = [[], [0x10], [0x10, 0x10], [0x10, 0x10, 0x10], [0x01, 0x10], [0x00, 0x10], [0x00, 0x00, 0x10], [0x30, 0x10], [0x20, 0x10, 0x10], [0xFF, 0x10]]


def fam_e0(i, rng, tier):
    """Degenerate streams: the empty stream, bare end-of-sequence units, header-only sequences."""
    sb = StreamBuilder(rng, wild_offsets=bool(i // len(E0_STREAMS) % 2))
    for code in E0_STREAMS[i % len(E0_STREAMS)]:
        sb.add_code(code, payload_len=0)
    sb.tags.add("degenerate stream")
    return sb.tobytes(), sb.tags


def fam_e5(i, rng, tier):
    code, n = E5_CASES[i % len(E5_CASES)]
    sb = StreamBuilder(rng, wild_offsets=False)
    if i % 2:
        sb.add_code(0x00)
    sb.add_code(code, payload_len=n)
    sb.add(0x10, Bits())
    return sb.tobytes(), sb.tags


def fam_e5n(i, rng, tier):
    code, nxt = E5_CODES[i % 9], (i // 9) % 13
    sb = StreamBuilder(rng, wild_offsets=False)
    sb.add(code, Bits(), next_override=nxt)  # remaining length nxt - 13 < 0: nothing follows the parse_info
    sb.add(0x10, Bits())
    sb.tags.add("aux/padding with next_parse_offset < 13")
    return sb.tobytes(), sb.tags


E6_GRIDS = [(1, 1), (2, 1), (3, 2)]


def fam_e6(i, rng, tier):
    i, frag = divmod(i, 2)
    i, g = divmod(i, 3)
    den, num = 1 + (i // 25) % 4, i % 25
    sx, sy = E6_GRIDS[g]
    sb = StreamBuilder(rng, wild_offsets=False)
    sb.add(0x00, encode_sh(plain_sh(2, 6, 2)))
    sb.gs.version = 2
    tp = plain_tp("ld", depth=1, sx=sx, sy=sy, ld=(num, den))
    if frag:
        sb.add(0xCC, fragment_body(rng, sb.gs, "ld", sb.tags, False, tp=tp))
        sb.add(0xCC, fragment_body(rng, sb.gs, "ld", sb.tags, True, conformant_offsets=True))
        sb.add(0xCC, fragment_body(rng, sb.gs, "ld", sb.tags, True))
    else:
        sb.add(0xC8, picture_body(rng, sb.gs, "ld", sb.tags, tp=tp))
    sb.add(0x10, Bits())
    return sb.tobytes(), sb.tags


def _e7_table():
    """For each bit alignment 0..7: a sequence header / transform parameter set whose encoding ends there (found by search)."""
    sh, tp = {}, {}
    for level, scan in itertools.product(range(40), (None, 0, 1)):
        s = plain_sh(3, 3, 2, level=level, scan=scan)
        sh.setdefault(len(encode_sh(s).b) % 8, s)
    gs = GenState()
    gs.version = 3
    for wavelet, qm, wavelet_ho in itertools.product(range(40), (False, True), (None, 0)):
        t = plain_tp("hq", 1, None, qm=qm)
        t["wavelet"], t["wavelet_ho"] = wavelet, wavelet_ho
        tp.setdefault(len(encode_tp(t, gs, "hq").b) % 8, t)
    assert len(sh) == 8 and len(tp) == 8
    cases = []
    for where, table in (("sh", sh), ("tp", tp)):
        for r in range(8):
            k = (-r) % 8
            cases.extend((where, table[r], k, v) for v in range(1 << k))
    return cases


E7_CASES = _e7_table()


def fam_e7(i, rng, tier):
    where, spec, k, v = E7_CASES[i % len(E7_CASES)]
    sb = StreamBuilder(rng, wild_offsets=False)
    sb.gs.version = 3
    if where == "sh":
        sb.add(0x00, encode_sh(spec).nbits(k, v))
        sb.add_code(0xE8)
    else:
        sb.add(0x00, encode_sh(plain_sh(3, 3, 2)))
        b = Bits().nbits(32, 9).raw(encode_tp(spec, sb.gs, "hq").b).nbits(k, v)
        sb.add(0xE8, b.raw(hq_slice_bits(rng, sb.gs, sb.tags)))
    sb.add(0x10, Bits())
    sb.tags.add("all %s padding patterns" % ("parse_info" if where == "sh" else "transform-parameter"))
    return sb.tobytes(), sb.tags


E8_K = [1, 2, 7, 8, 15, 16, 30, 31, 32, 33, 62, 63, 64, 65, 126, 127, 128, 129, 254, 255, 256, 257, 510, 511, 512, 513, 1023, 1024, 2047]
E8_PLACES = ["hq", "hq-cut", "ld", "ld-cut", "header", "quant"]


def fam_e8(i, rng, tier):
    i, place = divmod(i, len(E8_PLACES))
    place = E8_PLACES[place]
    i, neg = divmod(i, 2)
    i, delta = divmod(i, 3)
    k = E8_K[i % len(E8_K)]
    mag = (1 << k) + delta - 1
    val = -mag if neg and place not in ("header", "quant") else mag
    code = Bits().sint(val).b if place not in ("header", "quant") else None
    sb = StreamBuilder(rng, wild_offsets=False)
    sb.gs.version = 2
    sb.tags.add("large exp-Golomb value in " + place)
    if place == "header":
        sb.add(0x00, encode_sh(plain_sh(2, 3, 2, **{rng.choice(["minor", "profile", "level"]): mag, "frame_rate": (0, mag, 1), "clean": (mag, 0, 1, mag)})))
        sb.add_code(0xE8)
    else:
        sb.add(0x00, encode_sh(plain_sh(2, 3, 2)))
        if place == "quant":
            t = plain_tp("hq", 1, qm=True)
            t["qm_values"] = [mag, 0, mag + 1, 3]
            sb.add(0xE8, picture_body(rng, sb.gs, "hq", sb.tags, tp=t))
        else:
            cut = place.endswith("cut")
            nbits = len(code) if not cut else rng.choice([len(code) - 1, len(code) - 2, len(code) // 2, len(code) // 2 + 1])
            payload = (code + fill(rng, 64, "rand"))
            if place.startswith("hq"):
                nbytes = (nbits + 7) // 8 if not cut else max(1, nbits // 8)
                scaler = (nbytes + 254) // 255
                ln = (nbytes + scaler - 1) // scaler
                b = Bits().nbits(32, 3).raw(encode_tp(plain_tp("hq", 0, hq=(0, scaler)), sb.gs, "hq").b).pad(rng)
                b.nbits(8, rng.randrange(256)).nbits(8, ln).raw((payload + fill(rng, 8 * scaler * ln, "rand"))[: 8 * scaler * ln] if not cut else code[: 8 * scaler * ln] + fill(rng, max(0, 8 * scaler * ln - len(code)), "ones"))
                b.nbits(8, 1).raw(fill(rng, 8 * scaler, "rand")).nbits(8, 0)
                sb.add(0xE8, b)
            else:
                nbytes = (7 + 16 + nbits + 7) // 8 + 1
                lbits = intlog2(8 * nbytes - 7)
                left = 8 * nbytes - 7 - lbits
                ylen = min(left, nbits) if cut else rng.choice([left, (1 << lbits) - 1])  # the latter is clamped to the bits left
                b = Bits().nbits(32, 3).raw(encode_tp(plain_tp("ld", 0, ld=(nbytes, 1)), sb.gs, "ld").b).pad(rng)
                b.nbits(7, rng.randrange(128)).nbits(lbits, ylen).raw((payload + fill(rng, left, "rand"))[:left])
                sb.add(0xC8, b)
    sb.add(0x10, Bits())
    return sb.tobytes(), sb.tags


R1_CODES = [0x00, 0x20, 0x21, 0x27, 0x30, 0xC8, 0xC8, 0xE8, 0xE8, 0xE8, 0xCC, 0xCC, 0xEC, 0xEC, 0xEC, 0x88, 0x98, 0x0C, 0x8C, 0xFC, 0xC9, 0xEB, 0xCF, 0xEE, 0x01, 0x40, 0x11, 0x31, 0x80]


def build_r1(rng):
    sb = StreamBuilder(rng, wild_offsets=True)
    for _seq in range(rng.choice([1, 1, 1, 2, 3])):
        if rng.random() < 0.93:
            sb.add_code(0x00)
        for _ in range(rng.choice([0, 1, 2, 3, 4, 6])):
            code = rng.choice(R1_CODES)
            kind = classify(code)[0]
            if kind == "fragment":  # a run of fragments: parameters first, then slices
                sb.add_code(code, frag_slices=False)
                for _ in range(rng.randrange(0, 4)):
                    sb.add_code(code, frag_slices=True)
            else:
                sb.add_code(code)
        sb.add(0x10, Bits())
    return sb


def fam_r1(i, rng, tier):
    sb = build_r1(rng)
    return sb.tobytes(), sb.tags


def fam_r2(i, rng, tier):
    sb = build_r1(rng)
    x = bytearray(sb.tobytes())
    offs = sb.offsets + [len(x)]
    tags = set()
    for _ in range(rng.choice([1, 1, 2, 3])):
        op = rng.choice(["flip", "flip", "byte", "zero-run", "ff-run", "code", "code", "drop", "dup", "swap", "insert", "cut"])
        tags.add("mutation: " + op)
        if not x:
            break
        if op == "flip":
            p = rng.randrange(len(x))
            x[p] ^= 1 << rng.randrange(8)
        elif op == "byte":
            x[rng.randrange(len(x))] = rng.choice([0, 0xFF, rng.randrange(256)])
        elif op in ("zero-run", "ff-run"):
            p = rng.randrange(len(x))
            n = rng.choice([1, 2, 4, 16, 64, 100])
            x[p:p + n] = bytes([0 if op == "zero-run" else 0xFF]) * len(x[p:p + n])
        elif op == "code":
            u = rng.randrange(len(offs) - 1)
            if offs[u] + 4 < len(x):
                x[offs[u] + 4] = rng.choice([rng.randrange(256), rng.choice(R1_CODES)])
        elif op in ("drop", "dup", "swap") and len(offs) > 2:
            u = rng.randrange(len(offs) - 1)
            seg = bytes(x[offs[u]:offs[u + 1]])
            if op == "drop":
                del x[offs[u]:offs[u + 1]]
            elif op == "dup":
                x[offs[u]:offs[u]] = seg
            else:
                v = rng.randrange(len(offs) - 1)
                a, b = sorted((u, v))
                if a != b:
                    x = x[:offs[a]] + x[offs[b]:offs[b + 1]] + x[offs[a + 1]:offs[b]] + x[offs[a]:offs[a + 1]] + x[offs[b + 1]:]
            offs = [0, len(x)]  # unit boundaries no longer known
        elif op == "insert":
            p = rng.choice(offs)
            x[p:p] = bytes(rng.randrange(256) for _ in range(rng.choice([1, 2, 13])))
            offs = [0, len(x)]
        elif op == "cut":
            p = rng.choice(offs[1:])
            x = x[:p] + bytearray(Bits().nbits(32, 0x42424344).nbits(8, 0x10).nbits(32, 0).nbits(32, 0).tobytes())
            offs = [0, len(x)]
    return bytes(x), tags


def _sizes(tier):
    q = tier == "quick"
    return {
        "E1": 256 * 4 * (1 if q else 4),
        "E2": 256 * 3 + 2 * (2048 if q else 65536),
        "E3": 27 * 3 * 2 * (2 if q else 8),
        "E4": len(E4_SWEEPS) * (2 if q else 12),
        "E0": len(E0_STREAMS) * 2 * (1 if q else 4),
        "E5": len(E5_CASES) * (1 if q else 4),
        "E5n": 9 * 13,
        "E6": 25 * 4 * 3 * 2 * (1 if q else 3),
        "E7": len(E7_CASES) * (1 if q else 3),
        "E8": len(E8_K) * 3 * 2 * len(E8_PLACES) * (1 if q else 3),
        "R1": 3000 if q else 40000,
        "R2": 4000 if q else 80000,
    }


FAMILIES = {
    "E1": (fam_e1, True, "E1 parse codes: all 256 parse codes x 4 (major version, dwt_depth, dwt_depth_ho) configurations, each code's data unit twice (fragments: parameters then slices)"),
    "E2": (fam_e2, True, "E2 LD slice contents: 1x1-slice LD picture; every 1-byte slice content x 3 shapes; 2-byte slice contents x 2 shapes (all 65536 thorough / stride sample of 2048 quick)"),
    "E3": (fam_e3, True, "E3 HQ lengths: slice_{y,c1,c2}_length in {0,1,2}^3 x slice_size_scaler {0,1,2} x slice_prefix_bytes {0,1}, seeded payloads"),
    "E4": (fam_e4, True, "E4 header indices: each sequence-header index field over in-range and out-of-range values, other fields seeded, followed by a picture"),
    "E0": (fam_e0, True, "E0 degenerate streams: the empty byte string, 1..3 bare end-of-sequence units, header-only / padding-only sequences, with conformant and arbitrary parse offsets"),
    "E5": (fam_e5, True, "E5 auxiliary / padding units: codes 0x20..0x27, 0x30 x next_parse_offset 13..45, and codes 0x20, 0x27, 0x30 x payloads of 255..257, 1023..1025, 4095..4097 bytes"),
    "E5n": (fam_e5n, True, "E5n auxiliary / padding units with next_parse_offset 0..12 (negative remaining length): codes 0x20..0x27, 0x30 x 13 offsets"),
    "E6": (fam_e6, True, "E6 LD slice sizes: slice_bytes numerator 0..24 x denominator 1..4 x slice grids {1x1,2x1,3x2} x {picture, fragment run}"),
    "E7": (fam_e7, True, "E7 padding bits: sequence-header end / transform-parameter end at each bit alignment 0..7 x all padding bit patterns"),
    "E8": (fam_e8, True, "E8 large values: magnitudes 2^k-1, 2^k, 2^k+1, k in %s, both signs, as first HQ/LD coefficient (whole / cut by the block end) and as header / quant-matrix uint" % (E8_K,)),
    "R1": (fam_r1, False, "R1 seeded structured streams (1..3 sequences, pictures, fragment runs, LD/HQ/neither, v1..3+, unusual offsets / prefixes / indices, huge header values)"),
    "R2": (fam_r2, False, "R2 R1 streams after 1..3 byte/bit/unit-level mutations; only streams still parsed to completion are in the domain"),
}
STRUCTURED = ("E0", "E1", "E2", "E3", "E4", "E5", "E5n", "E6", "E7", "E8", "R1")  # built to be parseable: a floor on the parse yield guards against vacuity


# ======================================================================================================================
# the contract, evaluated on the real code (runs in worker processes)
# ======================================================================================================================
class _CaseTimeout(BaseException):
    pass


def _on_alarm(signum, frame):
    raise _CaseTimeout()


def canon(v):
    """Canonical rendering of a description: type names, keys, leaves (bool and int kept apart)."""
    from bitarray import bitarray

    if isinstance(v, dict):
        return (type(v).__name__, tuple((str(k), canon(v[k])) for k in sorted(v, key=str)))
    if isinstance(v, (list, tuple)):
        return (type(v).__name__, tuple(canon(x) for x in v))
    if isinstance(v, bitarray):
        return ("bitarray", v.to01())
    if isinstance(v, (bytes, bytearray)):
        return ("bytes", bytes(v).hex())
    if isinstance(v, bool):
        return ("bool", v)
    if isinstance(v, int):
        return ("int", int(v))
    return (type(v).__name__, repr(v))


def first_diff(a, b, path="description"):
    """Path of the first difference between two canonical renderings."""
    if a == b:
        return None
    if a[0] != b[0] or not isinstance(a[1], tuple) or not isinstance(b[1], tuple):
        return "%s: %s vs %s" % (path, str(a)[:120], str(b)[:120])
    if len(a[1]) != len(b[1]):
        return "%s: %d vs %d entries" % (path, len(a[1]), len(b[1]))
    for i, (x, y) in enumerate(zip(a[1], b[1])):
        if x != y:
            if a[0] in ("list", "tuple"):
                return first_diff(x, y, "%s[%d]" % (path, i))
            if x[0] != y[0]:
                return "%s: key %r vs %r" % (path, x[0], y[0])
            return first_diff(x[1], y[1], "%s[%r]" % (path, x[0]))
    return path


def _deserialise(x):
    from vc2_conformance.bitstream import BitstreamReader, Deserialiser, parse_stream
    from vc2_conformance.pseudocode.state import State

    with Deserialiser(BitstreamReader(io.BytesIO(x))) as des:
        parse_stream(des, State())
    return des.context


def _serialise(d, defaults=False):
    from vc2_conformance.bitstream import BitstreamWriter, Serialiser, parse_stream, vc2_default_values
    from vc2_conformance.pseudocode.state import State

    f = io.BytesIO()
    w = BitstreamWriter(f)
    with (Serialiser(w, d, vc2_default_values) if defaults else Serialiser(w, d)) as ser:
        parse_stream(ser, State())
    w.flush()
    return f.getvalue()


def roundtrip(x, also_defaults=False):
    """-> ("rejected", exception class) | ("ok", features) | ("fail", clause, observed dict, description or None)"""
    try:
        d1 = _deserialise(x)
    except _CaseTimeout:
        raise
    except Exception as e:  # x is not parsed to completion: outside the domain (counted per class by the caller)
        return ("rejected", type(e).__name__)
    snap = canon(d1)
    for defaults in ((False, True) if also_defaults else (False,)):
        how = "Serialiser(writer, description%s)" % (", vc2_default_values" if defaults else "")
        try:
            y = _serialise(d1, defaults)
        except (_CaseTimeout, MemoryError):  # MemoryError: the worker's address-space cap, a resource limit of this check
            raise _CaseTimeout()
        except Exception as e:
            return ("fail", CLAUSE_A, {"stage": how, "raised": type(e).__name__, "message": str(e)[:300]}, d1)
        if y != x:
            n = next((i for i, (p, q) in enumerate(zip(x, y)) if p != q), min(len(x), len(y)))
            return ("fail", CLAUSE_A, {"stage": how, "input_length": len(x), "output_length": len(y), "first_differing_byte": n, "output_hex": y.hex()[:4000]}, d1)
    try:
        d2 = _deserialise(y)
    except (_CaseTimeout, MemoryError):
        raise _CaseTimeout()
    except Exception as e:
        return ("fail", CLAUSE_B, {"stage": "deserialising the serialised bytes", "raised": type(e).__name__, "message": str(e)[:300]}, d1)
    c2 = canon(d2)
    if c2 != snap:
        return ("fail", CLAUSE_B, {"stage": "second description vs the first (rendered before serialising)", "first_difference": first_diff(snap, c2)}, d1)
    if not (d2 == d1) or (d2 != d1):
        return ("fail", CLAUSE_B, {"stage": "second description == description handed to the serialiser (project's own equality)",
                                   "first_difference": first_diff(canon(d1), c2) or "renderings agree but == is False"}, d1)
    return ("ok", snap)


def _explained_by_short_offset(x, d1, observed):
    """Attribution predicate for D3_KEY: the serialiser raised OutOfRangeError, the description holds auxiliary / padding
    units whose next_parse_offset is below 13 (negative remaining length), and the SAME stream with only those offsets
    rewritten to 13 round-trips exactly."""
    if observed.get("raised") != "OutOfRangeError":
        return False
    x2 = bytearray(x)
    hit = 0
    for seq in d1.get("sequences", []):
        for du in seq.get("data_units", []):
            pi = du.get("parse_info", {})
            code, nxt, o = pi.get("parse_code"), pi.get("next_parse_offset"), pi.get("_offset")
            if not all(isinstance(v, int) for v in (code, nxt, o)) or classify(code)[0] not in ("aux", "padding") or not 0 <= nxt < 13:
                continue
            if not 0 <= o <= len(x2) - 13 or x2[o + 5:o + 9] != nxt.to_bytes(4, "big"):
                return False
            x2[o + 5:o + 9] = (13).to_bytes(4, "big")
            hit += 1
    return hit > 0 and roundtrip(bytes(x2))[0] == "ok"


def _features(snap_text):
    f = []
    if "'y_block_padding', ('bitarray', '0" in snap_text or "'y_block_padding', ('bitarray', '1" in snap_text or "'c_block_padding', ('bitarray', '1" in snap_text or "'c_block_padding', ('bitarray', '0" in snap_text:
        f.append("unused bounded-block bits present")
    if "'padding', ('bitarray', '0" in snap_text or "'padding', ('bitarray', '1" in snap_text:
        f.append("byte-align padding bits present")
    return f


def _worker_init():
    """Forked workers inherit every object of the parent (z3, numpy, ...); without this, each full garbage collection in a
    worker walks (and copy-on-write duplicates) all of them, which costs about a CPU second per collection."""
    import gc
    import resource

    gc.freeze()
    # A mutated stream may carry e.g. a dwt_depth of 2**36, and `1 << depth` is one uninterruptible C call allocating
    # gigabytes: cap the worker's address space a fixed amount above its size at start, so that such a parse fails at
    # once with MemoryError (= stream rejected) instead of exhausting the machine.
    with open("/proc/self/statm") as f:
        now = int(f.read().split()[0]) * resource.getpagesize()
    soft, hard = resource.getrlimit(resource.RLIMIT_AS)
    cap = now + WORKER_EXTRA_BYTES
    if hard == resource.RLIM_INFINITY or cap < hard:
        resource.setrlimit(resource.RLIMIT_AS, (cap, hard))
    roundtrip(Bits().nbits(32, 0x42424344).nbits(8, 0x10).nbits(64, 0).tobytes())  # warm-up outside any time limit (first-use costs after the fork)


def run_chunk(task):
    seed, tier, fam, start, stop = task
    gen = FAMILIES[fam][0]
    res = {"family": fam, "n": 0, "parsed": 0, "rejected": {}, "abandoned": 0, "tags": {}, "fails": [], "nfails": 0, "samples": [], "bytes": 0, "abandoned_at": []}
    try:
        old = signal.signal(signal.SIGPROF, _on_alarm)
    except ValueError:  # not in a main thread: no time limit available
        old = None
    for i in range(start, stop):
        rng = random.Random("C06|%d|%s|%d" % (seed, fam, i))
        x, tags = gen(i, rng, tier)
        res["n"] += 1
        try:
            if old is not None:
                signal.setitimer(signal.ITIMER_PROF, CASE_SECONDS)
            try:
                r = roundtrip(x, also_defaults=(i % 4 == 0))
                known = None
                if r[0] == "fail" and r[1] == CLAUSE_A and _explained_by_short_offset(x, r[3], r[2]):
                    known = D3_KEY
            finally:
                if old is not None:
                    signal.setitimer(signal.ITIMER_PROF, 0)
        except _CaseTimeout:
            res["abandoned"] += 1
            res["abandoned_at"].append(i)
            continue
        if r[0] == "rejected":
            res["rejected"][r[1]] = res["rejected"].get(r[1], 0) + 1
            continue
        res["parsed"] += 1
        res["bytes"] += len(x)
        feats = list(tags)
        if r[0] == "ok" and i % 4 == 0:
            feats += _features(str(r[1]))
        for t in feats:
            res["tags"][t] = res["tags"].get(t, 0) + 1
        if r[0] == "fail":
            res["nfails"] += 1
            if len(res["fails"]) < 4:
                res["fails"].append({"family": fam, "index": i, "clause": r[1], "observed": r[2], "stream_hex": x.hex(), "known_key": known, "tags": sorted(tags)})
        elif len(res["samples"]) < 1 and i % 37 == 0:
            res["samples"].append({"family": fam, "index": i, "stream_hex": x.hex()[:160] + ("..." if len(x) > 80 else ""), "bytes": len(x), "tags": sorted(tags)[:4]})
    if old is not None:
        signal.signal(signal.SIGPROF, old)
    return res


REPRO = ("import io; from vc2_conformance.bitstream import *; from vc2_conformance.pseudocode.state import State\n"
         "x = bytes.fromhex(STREAM_HEX)\n"
         "with Deserialiser(BitstreamReader(io.BytesIO(x))) as des: parse_stream(des, State())\n"
         "f = io.BytesIO(); w = BitstreamWriter(f)\n"
         "with Serialiser(w, des.context) as ser: parse_stream(ser, State())\n"
         "w.flush(); assert f.getvalue() == x")


def check(rep, tier, seed):
    from pyvc import frontend

    frontend.ensure_repo_on_path()
    import vc2_conformance.bitstream  # noqa: F401  (imported before forking so that the workers share the tree under check)

    sizes = _sizes(tier)
    tasks = [(seed, tier, fam, a, min(a + CHUNK, n)) for fam, n in sizes.items() for a in range(0, n, CHUNK)]
    tasks.sort(key=lambda t: (t[2] not in ("R1", "R2", "E8"), t[3]))  # long families first
    agg = {}
    ctx = multiprocessing.get_context("fork")
    with ctx.Pool(WORKERS, initializer=_worker_init) as pool:
        for r in pool.imap_unordered(run_chunk, tasks):
            a = agg.setdefault(r["family"], {"n": 0, "parsed": 0, "rejected": {}, "abandoned": 0, "tags": {}, "fails": [], "nfails": 0, "samples": [], "bytes": 0, "abandoned_at": []})
            a["abandoned_at"].extend(r["abandoned_at"])
            for k in ("n", "parsed", "abandoned", "nfails", "bytes"):
                a[k] += r[k]
            for k in ("rejected", "tags"):
                for t, c in r[k].items():
                    a[k][t] = a[k].get(t, 0) + c
            a["fails"].extend(r["fails"])
            a["samples"].extend(r["samples"])

    # ---- one bounded record per family
    total_parsed = 0
    for fam in sizes:
        a = agg[fam]
        total_parsed += a["parsed"]
        note = "parsed to completion %d of %d (rejected by class: %s; abandoned at the %.1f CPU-s case limit: %d %s); %d input bytes; contract failures: %d; corner counts: %s" % (
            a["parsed"], a["n"], a["rejected"] or "none", CASE_SECONDS, a["abandoned"], sorted(a["abandoned_at"])[:12] or "", a["bytes"], a["nfails"],
            ", ".join("%s=%d" % kv for kv in sorted(a["tags"].items())[:14]))
        rep.add_bounded("C06 round trip (clauses A and B) - " + fam, FAMILIES[fam][2] + " [%s tier, %d cases]" % (tier, sizes[fam]), a["n"],
                        fam == "E2" and tier != "quick", distinct=a["parsed"], samples=sorted(a["samples"], key=lambda s: s["index"])[:2], note=note)
    # ---- non-vacuity: the structured families are built to be parseable
    low = {fam: "%d/%d" % (agg[fam]["parsed"], agg[fam]["n"]) for fam in STRUCTURED if agg[fam]["parsed"] * 2 < agg[fam]["n"]}
    rep.add_eval_fact("C06 domain is not vacuous: in every structured family at least half of the generated streams are parsed to completion (and some mutated stream is)",
                      not low and agg["R2"]["parsed"] > 0, "families below the floor: %s; R2 yield %d/%d" % (low or "none", agg["R2"]["parsed"], agg["R2"]["n"]))
    rep.extra_coverage["c06_streams_parsed_and_round_tripped"] = total_parsed

    # ---- violations: at most 3 per clause (shortest streams first, one family at a time); the attributed ones apart and last
    fails = sorted((f for a in agg.values() for f in a["fails"]), key=lambda f: (f["known_key"] is not None, len(f["stream_hex"]), f["family"], f["index"]))
    budget = {}
    seen_fam = {}
    for rnd in (0, 1):  # first round: one per family and clause; second round: fill up
        for f in fails:
            slot = (f["clause"], f["known_key"])
            fk = (f["family"],) + slot
            if budget.get(slot, 0) >= 3 or f.get("_done") or (rnd == 0 and seen_fam.get(fk)):
                continue
            f["_done"] = True
            seen_fam[fk] = True
            budget[slot] = budget.get(slot, 0) + 1
            payload = {
                "what": "C06 %s - violated for a stream that the deserialiser parses to completion (%s)" % (f["clause"], f["observed"].get("stage")),
                "inputs": {"stream_hex": f["stream_hex"], "family": f["family"], "case_index": f["index"], "seed": seed, "tier": tier, "corner_tags": f["tags"]},
                "expected": "serialised bytes == input bytes, and the re-deserialised description equals the description",
                "observed": f["observed"],
                "reproduce": REPRO.replace("STREAM_HEX", repr(f["stream_hex"])),
                "failing_cases_in_family": agg[f["family"]]["nfails"],
            }
            if f["known_key"]:
                payload["known_key"] = f["known_key"]
                payload["attribution"] = _explained_by_short_offset.__doc__
            rep.violation("%s-%s-%d" % ("bytes" if f["clause"] == CLAUSE_A else "redeserialise", f["family"], f["index"]), payload)


REGISTER = {
    "C06": dict(
        extra=[check],
        level="other",
        assumptions=[
            "BOUNDED (not proved): the round-trip contract is evaluated only on the generated streams listed under bounded_checks (frames at most 16x8, at most 6 slices "
            "per picture, slices up to ~520 bytes, exp-Golomb magnitudes up to 2^2047, 1..3 sequences); exhaustive only within the stated small scopes (E families)",
            "the input generator (bit packer and stream syntax) is an independent implementation written from SMPTE ST 2042-1; it only produces inputs - the oracle is the "
            "statement itself (bytes out == bytes in; descriptions equal), so a generator error can only shrink the domain (measured parse yield is reported per family)",
            "'parsed to completion' = parse_stream under a Deserialiser returns without raising; streams the deserialiser rejects (any exception class, counted) or that exceed "
            "the per-case CPU-time limit are outside the domain; description equality = the project's == plus an identical canonical rendering",
            "resource guards of the check itself: a case is abandoned (never reported) after 1 CPU-second or when it hits the worker's address-space cap (2 GiB above start); "
            "the handful of mutated streams that run close to the CPU limit may fall on either side of it from run to run (the abandoned count of R2 can differ by a few), "
            "everything else is a deterministic function of the seed",
            "serialisation as documented: Serialiser(BitstreamWriter(file), description) (every 4th case also with vc2_default_values), parse_stream(ser, State()), flush()",
        ],
        manifest=dict(
            category="other",
            technique="bounded native check of the round-trip contract: exhaustive small scopes + seeded structured generation + mutation, independent stream generator, real serdes code",
            text="For every generated byte string that the real Deserialiser parses to completion: serialising the description gives back exactly the input bytes (no exception), "
                 "and deserialising those bytes gives an equal description. Domains: all 256 parse codes; all 1-byte (and all / sampled 2-byte) LD slice contents; HQ slice length "
                 "grids; every header index in and out of range; auxiliary/padding lengths incl. next_parse_offset < 13; LD slice_bytes grids incl. zero-byte slices; all padding "
                 "bit patterns at every alignment; exp-Golomb magnitudes up to 2^2047 whole and cut by a block end; seeded multi-sequence streams and their byte/bit/unit mutations.",
            note="Bounded stand-in, never counted as proved. Inputs outside the generated families (large frames, very long streams) are not exercised.",
        ),
    )
}
