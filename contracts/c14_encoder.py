"""C14 - lossy encoding fills slices to the byte budget with the smallest qindex (encoder/pictures.py).

Spec functions (written from the statement / the bounded-block semantics of C20, not from the code):
  segl(v)        bits of the signed exp-Golomb code of v
  pre_bits(c,n)  bits of the first n coefficients, all coded
  cbits(c,n)     bits a bounded block needs for the first n coefficients: trailing zeros cost nothing (past the end
                 of a bounded block the reader sees 1s, i.e. zeros), everything up to the last non-zero value is coded
"""
from pyvc.api import *
from pyvc import models  # noqa: F401
from contracts import c20_lemmas  # noqa: F401  (contracts of exp_golomb_length / signed_exp_golomb_length)
from contracts.c20_writer import eg_len
from vc2_conformance.encoder.pictures import calculate_coeffs_bits

EP = "vc2_conformance.encoder.pictures."


@inline
def segl(v):
    return 1 if v == 0 else eg_len(abs(v)) + 1


@specfun
def pre_bits(c: "array", n):
    return 0 if n <= 0 else pre_bits(c, n - 1) + segl(c[n - 1])


@specfun
def cbits(c: "array", n):
    return 0 if n <= 0 else (pre_bits(c, n) if c[n - 1] != 0 else cbits(c, n - 1))


@spec(EP + "calculate_coeffs_bits")
class _calculate_coeffs_bits:
    args = {"coeffs": "list:int"}
    result = "int"
    requires = []
    modifies = []
    raises = {}
    ensures = ["result == cbits(content(coeffs), length(coeffs))", "result >= 0"]
    invariants = {
        1: [
            # _k: index of the next element to visit (going down); elements above it have been visited
            "num_bits >= 0",
            "implies(skip_zeros, num_bits == 0 and cbits(content(coeffs), length(coeffs)) == cbits(content(coeffs), _k + 1))",
            "implies(not skip_zeros, cbits(content(coeffs), length(coeffs)) == num_bits + pre_bits(content(coeffs), _k + 1))",
        ],
    }
    ghost = {
        "loop1.body_start": ["unfold(cbits, content(coeffs), _k + 1)", "unfold(pre_bits, content(coeffs), _k + 1)",
                             'use("blen_def", abs(content(coeffs)[_k]) + 1)'],
        "loop1.after": ["unfold(cbits, content(coeffs), 0)", "unfold(pre_bits, content(coeffs), 0)"],
    }
