"""C21 - bounded stand-in: the serialiser/deserialiser framework (bitstream/serdes.py) round-trips
arbitrary description programs.  BOUNDED, never 'proved'.

How it works
  * A *program* is a small JSON-able syntax tree over the public SerDes interface: the seven primitive
    fields (bool, nbits, uint_lit, bitarray, bytes, uint, sint), declare_list, byte_align, bounded
    blocks (context manager or begin/end), sub-descriptions (context manager or enter/leave; in plain or
    list targets), set_context_type / the @context_type decorator, computed values, and - like the
    VC-2 pseudocode - `if` and `repeat` whose condition/count/block length are values returned by earlier
    primitives.
  * A *reference walk* (written from the property statement and the standard's A.3/A.4 pseudocode, with no
    index book-keeping at all) executes the program on freshly drawn values and builds the description it
    denotes directly: names in program order, list targets collect their values in order, a
    sub-description is a nested tree, the type of a description is the last type set in it, a computed
    value is what the program computed.  It also keeps an abstract bit position so that values inside a
    bounded block are *valid* there (bits past the end of the block must be 1: a value that straddles or
    passes the end is replaced by what the standard's reader yields for "its bits inside the block, then 1s").
  * The real code is then driven with the same program by a second interpreter.

Clause -> oracle -> domain
  R  round trip.  Serialiser(program, complete description) raises nothing, verify_complete passes, every
     primitive returns the described value; Deserialiser(program, written bytes) raises nothing and yields
     a description equal to the reference one with every (sub-)description of the type last set in it.
     Context types: two fixeddict types TA, TB, a subclass TA2 of TA, a plain dict subclass TC and dict itself
     (set explicitly), set at the start of, in the middle of, or several times within a description.
     The description is supplied raw (plain dicts), typed, as one other type, or mixed per node (raw / typed /
     another type, e.g. the subclass where the program sets the base type); computed targets are supplied
     absent / with junk / correct (they are ignored and recomputed); with a default-value lookup
     (per context type, incl. plain dict; for list targets per element; whole sub-descriptions that hold only
     defaulted/computed values may be absent) values equal to the applicable default are left out.
     After serialisation the supplied tree must be the reference tree (minus the omitted values, or with
     them filled in), retyped (context-type changes keep the tree consistent).  While deserialising (MonitoredDeserialiser) the set
     of (path -> value) pairs must grow monotonically (never overwrites).
  U  an unused supplied value makes serialisation fail with UnusedTargetError: 1..3 never-used keys in the root / a
     nested / a list-held description - spare names, or fields of the program that are guarded by a condition which is
     false in this run (the value is supplied although the flag, explicit or defaulted, says it is not written) - or one
     extra element in a list of values / sub-descriptions / computed values.  Each program is tried with three
     supplies: nothing omitted; every value for which a default applies omitted; a random part (25/50/75 %) omitted
     (default_values given) - so that k spare values meet 0..3+ scalars served from the defaults in the same
     description (tallied in the coverage as a k x j matrix).  M and W also run with the other values left to defaults.
  G  the U x default_values interaction as a complete table (G_TABLE): flag-guarded fields / spare names (0..3, 0 = control)
     next to 0..4 scalars served from the defaults, 4 context types, root / nested / list-held, raw / typed supply.
  V  the real VC-2 programs (bitstream/vc2.py) of the 13 fixeddict types with flag-guarded fields, with the library's
     vc2_default_values: every non-empty subset of the guarded fields supplied while the flag is absent (default
     False) or explicitly False, directly and nested in source_parameters / color_spec -> UnusedTargetError; one
     control per type (flags true, complete) must serialise.  Exhaustive over that finite table.
  W  wrong shape.  A non-list (0, 1, None, False, True, b"", b"x", empty / non-empty bitarray, "", "x", {}, a dict, a
     float, tuples) supplied for a target the program declares as a list -> ListTargetContainsNonListError (documented),
     whatever the number of uses.  A list / dict / tuple supplied for an integer target (nbits, uint_lit, uint, sint) or as
     an element of an integer list target; a non-dict (0, 1, None, False, True, b"x", "x", bitarray, [1], float, tuple)
     supplied for a sub-description (plain target or list element): the documentation names no exception, so the oracle
     is the statement's: serialisation must raise, or else the written bytes must deserialise to the supplied description.
     Not asserted, only tallied (documentation silent, the io layer is duck-typed / the dict constructor accepts them):
     containers for bool / bitarray / bytes targets, empty iterables (b"", "", bitarray(), [], ()) for a sub-description.
     At every node of the tree (root, nested, list-held).
  M  a missing needed value makes serialisation fail with KeyError (plain target) or
     ListTargetExhaustedError (list target): one leaf removed, a list shortened by its last element or
     removed as a whole; only leaves for which no default applies (defaults of *other* types are present).
  X  re-use: an extra use (primitive / declare_list / subcontext / computed value) of an already used plain
     target, or declare_list of a declared list, injected at a random point of the run, raises
     ReusedTargetError at that very statement, and (Deserialiser) leaves the description read so far unchanged.  The
     same injected program is run on both sides and both must reject it.  Second variant: the re-used target is one that
     is absent from the supplied description because a default_values entry applies (second use, declare_list, subcontext,
     computed value after the use that took the default).
Domains
  random: seeded programs (statement budget 6..30 quick, ..60 thorough; nesting depth <= 3/4; loop counts
          <= 3; bounded block lengths 0..40 bits), QUICK_CASES / THOROUGH_CASES of them, each with 2 R, 3 U,
          2 W, 2 M and 2 X experiments (an X experiment = Serialiser run + Deserialiser run).
  exhaustive: ALL valid statement sequences of length <= 3 (quick) / <= 4 (thorough) over the 16 statement
          templates in TEMPLATES (values seeded), same experiments.
Every random choice derives from `seed`; case i of a domain can be re-run alone:
    cd /verif && .venv/bin/python -m bounded.c21_serdes <seed> <random|exhaustive> <i> <quick|thorough>
"""
import hashlib
import io as _io
import itertools
import json
import multiprocessing
import random
import sys
import time
import traceback

QUICK_CASES = 20000
THOROUGH_CASES = 200000
WORKERS = 6

# ======================================================================================================
# target names: the name fixes the primitive (so that one default value per (type, name) is well-typed)
# ======================================================================================================
PRIMS = {
    "b0": ("bool", None), "b1": ("bool", None), "b2": ("bool", None),
    "u0": ("uint", None), "u1": ("uint", None), "u2": ("uint", None), "u3": ("uint", None),
    "s0": ("sint", None), "s1": ("sint", None),
    "n0": ("nbits", 0), "n1": ("nbits", 1), "n5": ("nbits", 5), "n12": ("nbits", 12),
    "l1": ("uint_lit", 1), "l2": ("uint_lit", 2),
    "a0": ("bitarray", 0), "a3": ("bitarray", 3), "a9": ("bitarray", 9),
    "y0": ("bytes", 0), "y1": ("bytes", 1), "y2": ("bytes", 2),
}
ALIGN = ["p0", "p1", "p2"]        # byte_align padding targets
BLOCKPAD = ["q0", "q1"]           # unused-bits targets of bounded blocks
SUBS = ["c0", "c1", "c2"]         # sub-descriptions
COMPS = ["_k0", "_k1", "_k2"]     # computed values
SPARE = ["zz0", "zz1", "zz2"]            # declared in the typed descriptions, used by no program
POOLS = {"prim": sorted(PRIMS), "align": ALIGN, "blockpad": BLOCKPAD, "sub": SUBS, "comp": COMPS}
ALL_NAMES = [n for p in POOLS.values() for n in p] + [n + "L" for p in POOLS.values() for n in p] + SPARE
INT_KINDS = ("bool", "uint", "sint", "nbits", "uint_lit")
TYPE_NAMES = ["TA", "TB", "TC", "D", "TA2"]   # D: plain dict set explicitly; TA2: a subclass of TA


def base_of(name):
    return name[:-1] if name.endswith("L") else name


def cat_of(name):
    b = base_of(name)
    for c, pool in POOLS.items():
        if b in pool:
            return c
    raise KeyError(name)


# set by _setup() (after frontend.ensure_repo_on_path())
BA = None        # bitarray class
S = None         # namespace of the code under check
TYPES = {}       # name -> dict-like class
DEFAULTS = {}    # class -> {target: default}
_NOPE = object()


class _NS(object):
    pass


def _setup():
    global BA, S, TYPES, DEFAULTS
    if S is not None:
        return
    from pyvc import frontend

    frontend.ensure_repo_on_path()
    from bitarray import bitarray
    from vc2_conformance.bitstream import serdes, exceptions
    from vc2_conformance.bitstream.io import BitstreamReader, BitstreamWriter
    from vc2_conformance.fixeddict import fixeddict

    BA = bitarray
    ns = _NS()
    ns.serdes, ns.exc, ns.Reader, ns.Writer = serdes, exceptions, BitstreamReader, BitstreamWriter
    TA = fixeddict("TA", *ALL_NAMES)
    TB = fixeddict("TB", *ALL_NAMES)

    class TC(dict):
        """a plain dict subclass as context type"""

    class TA2(TA):
        """a subclass of a fixeddict type (changing to / from the base type must really change the type)"""

    TYPES = {"TA": TA, "TB": TB, "TC": TC, "D": dict, "TA2": TA2}
    DEFAULTS = {
        TA: {"u0": 3, "u1": 0, "b0": True, "s0": -2, "n5": 17, "n12": 1000, "l1": 200, "a3": BA("101"), "y1": b"\x5a", "n1": 1,
             "y0": b"", "a0": BA(), "u0L": 6, "b1L": False, "s1L": 4, "y2L": b"\x01\x02", "a9L": BA("110011001")},
        TB: {"u0": 7, "u2": 1, "b0": False, "b1": True, "s1": 5, "n5": 0, "l2": 4660, "u0L": 1, "u1L": 2, "n5L": 31, "l1L": 0},
        dict: {"u3": 2, "b2": False, "s0": 1, "n12L": 4095, "u2L": 0},
        TA2: {"u0": 11, "b1": False, "u1L": 9, "n12": 7},
    }
    S = ns


# ======================================================================================================
# reference bit codec (SMPTE ST 2042-1 annex A.3 / A.4), used only to know which values are valid inside
# a bounded block and how many padding bits byte_align / the end of a bounded block ask for
# ======================================================================================================
def ref_encode(kind, arg, v):
    if kind == "bool":
        return [1 if v else 0]
    if kind == "nbits":
        return [(v >> i) & 1 for i in range(arg - 1, -1, -1)]
    if kind == "uint_lit":
        return [(v >> i) & 1 for i in range(8 * arg - 1, -1, -1)]
    if kind == "bitarray":
        return [int(b) for b in v]
    if kind == "bytes":
        return [(byte >> i) & 1 for byte in bytearray(v) for i in range(7, -1, -1)]
    if kind == "uint":
        x = v + 1
        out = []
        for i in range(x.bit_length() - 2, -1, -1):
            out += [0, (x >> i) & 1]
        return out + [1]
    if kind == "sint":
        return ref_encode("uint", None, abs(v)) + ([1 if v < 0 else 0] if v else [])
    raise ValueError(kind)


def ref_decode(kind, arg, bits):
    """bits: iterator of 0/1"""
    def take(n):
        x = 0
        for _ in range(n):
            x = (x << 1) | next(bits)
        return x
    if kind == "bool":
        return bool(next(bits))
    if kind == "nbits":
        return take(arg)
    if kind == "uint_lit":
        return take(8 * arg)
    if kind == "bitarray":
        return BA([next(bits) for _ in range(arg)])
    if kind == "bytes":
        return bytes(bytearray(take(8) for _ in range(arg)))
    if kind == "uint":
        x = 1
        while not next(bits):
            x = (x << 1) | next(bits)
        return x - 1
    if kind == "sint":
        m = ref_decode("uint", None, bits)
        if m and next(bits):
            m = -m
        return m
    raise ValueError(kind)


def rand_value(rng, kind, arg):
    if kind == "bool":
        return rng.random() < 0.5
    if kind in ("uint", "sint"):
        r = rng.random()
        v = 0 if r < 0.15 else rng.randint(0, 3) if r < 0.45 else rng.randint(0, 40) if r < 0.75 else rng.randint(0, 5000) if r < 0.93 \
            else (1 << rng.randint(10, 40)) + rng.randint(-2, 5)
        return -v if kind == "sint" and rng.random() < 0.5 else v
    if kind in ("nbits", "uint_lit"):
        n = arg if kind == "nbits" else 8 * arg
        return rng.choice([0, (1 << n) - 1, rng.getrandbits(n) if n else 0, rng.getrandbits(n) if n else 0])
    if kind == "bitarray":
        return BA([rng.getrandbits(1) for _ in range(arg)])
    if kind == "bytes":
        return bytes(bytearray(rng.getrandbits(8) for _ in range(arg)))
    raise ValueError(kind)


# ---- expressions of the program (program semantics, shared by both interpreters)
def ev_len(spec, env):
    return spec[1] if spec[0] == "const" else spec[3] + abs(int(env[spec[1]])) % spec[2]


def ev_count(spec, env):
    return spec[1] if spec[0] == "const" else abs(int(env[spec[1]])) % spec[2]


def ev_cond(spec, env):
    return bool(int(env[spec[1]]) & 1)


def ev_comp(spec, env):
    return spec[1] if spec[0] == "const" else sum(int(env[v]) for v in spec[1])


# ======================================================================================================
# static validity of a program (each plain target used at most once on every path, list targets declared
# first, no bounded block inside a bounded block, variables defined before use)
# ======================================================================================================
class CS(object):
    def __init__(self, used=None, lists=None):
        self.used = set(used or ())
        self.lists = dict(lists or {})

    def copy(self):
        return CS(self.used, self.lists)


def _use(cs, name, cat, in_loop):
    if cat_of(name) != cat:
        return False
    if name.endswith("L"):
        return cs.lists.get(name) == cat
    if in_loop or name in cs.used:
        return False
    cs.used.add(name)
    return True


def _spec_vars(spec):
    if spec[0] == "const":
        return []
    return list(spec[1]) if spec[0] == "sum" else [spec[1]]


def static_ok(stmts, cs=None, vs=None, in_loop=False, in_blk=False):
    cs = CS() if cs is None else cs
    vs = set() if vs is None else vs
    for s in stmts:
        op = s[0]
        if op == "prim":
            if not _use(cs, s[2], "prim", in_loop) or PRIMS[base_of(s[2])] != (s[1], s[3]):
                return False
            if s[4]:
                vs.add(s[4])
        elif op == "list":
            n = s[1]
            if in_loop or not n.endswith("L") or n in cs.lists or n in cs.used:
                return False
            cs.lists[n] = cat_of(n)
        elif op == "align":
            if not _use(cs, s[1], "align", in_loop):
                return False
        elif op == "block":
            if in_blk or not set(_spec_vars(s[2])) <= vs or not _use(cs, s[1], "blockpad", in_loop):
                return False
            if not static_ok(s[3], cs, vs, in_loop, True):
                return False
        elif op == "sub":
            if not _use(cs, s[1], "sub", in_loop) or not static_ok(s[2], CS(), vs, False, in_blk):
                return False
        elif op == "type":
            if s[1] not in TYPE_NAMES:
                return False
        elif op == "tcall":
            if s[1] not in TYPE_NAMES or not static_ok(s[2], cs, vs, in_loop, in_blk):
                return False
        elif op == "comp":
            if not set(_spec_vars(s[2])) <= vs or not _use(cs, s[1], "comp", in_loop):
                return False
        elif op == "if":
            if s[1][1] not in vs:
                return False
            c1, c2 = cs.copy(), cs.copy()
            if not static_ok(s[2], c1, set(vs), in_loop, in_blk) or not static_ok(s[3], c2, set(vs), in_loop, in_blk):
                return False
            cs.used |= c1.used | c2.used | (set(c1.lists) - set(cs.lists)) | (set(c2.lists) - set(cs.lists))
        elif op == "rep":
            if not set(_spec_vars(s[1])) <= vs or not static_ok(s[2], cs, set(vs), True, in_blk):
                return False
        else:
            return False
    return True


# ======================================================================================================
# random program generator
# ======================================================================================================
class Gen(object):
    def __init__(self, rng, budget, maxdepth):
        self.rng, self.budget, self.maxdepth, self.nv = rng, budget, maxdepth, 0

    def program(self):
        return self.block(CS(), [], 0, 0, False, self.rng.randint(2, max(4, self.budget // 2)), True)

    def block(self, cs, vs, depth, loopd, in_blk, n, fresh):
        rng = self.rng
        out = []
        if fresh and rng.random() < 0.6:
            t = rng.choice(TYPE_NAMES)
            if rng.random() < 0.25:
                self.budget -= 1
                return [["tcall", t, self.block(cs, vs, depth, loopd, in_blk, n, False)]]
            out.append(["type", t])
        for _ in range(n):
            if self.budget <= 0:
                break
            s = self.stmt(cs, vs, depth, loopd, in_blk)
            if s is not None:
                self.budget -= 1
                out.append(s)
        return out

    def free(self, cs, cat, as_list=False):
        sfx = "L" if as_list else ""
        return [n + sfx for n in POOLS[cat] if (n + sfx) not in cs.used and (n + sfx) not in cs.lists]

    def lists_of(self, cs, cat):
        return sorted(n for n, c in cs.lists.items() if c == cat)

    def var_of(self, kind):
        if kind in INT_KINDS and self.rng.random() < 0.7:
            self.nv += 1
            return "v%d" % self.nv
        return None

    def len_spec(self, vs):
        rng = self.rng
        if vs and rng.random() < 0.4:
            return ["var", rng.choice(vs), rng.choice([3, 9, 20, 33]), rng.choice([0, 0, 1, 5])]
        return ["const", rng.choice([0, 0, 1, 2, 3, 5, 7, 8, 11, 16, 23, 40])]

    def stmt(self, cs, vs, depth, loopd, in_blk):
        rng = self.rng
        in_loop = loopd > 0
        w = {"useL": 6 if cs.lists else 0, "sub": 2.2 if depth < self.maxdepth else 0, "block": 0 if in_blk else 1.5, "type": 0.8, "tcall": 0.3,
             "if": 1.3 if vs else 0, "rep": 1.6 if (cs.lists and loopd < 2) else 0}
        if not in_loop:
            w.update({"prim": 5, "decl": 3.5, "comp": 1, "align": 0.8})
        ops = sorted(w)
        op = rng.choices(ops, [w[o] for o in ops])[0]
        if op == "prim":
            fr = self.free(cs, "prim")
            if not fr:
                return None
            n = rng.choice(fr)
            cs.used.add(n)
            k, a = PRIMS[n]
            v = self.var_of(k)
            if v:
                vs.append(v)
            return ["prim", k, n, a, v]
        if op == "decl":
            cat = rng.choices(["prim", "sub", "comp", "align", "blockpad"], [6, 4, 1.2, 0.6, 0.8])[0]
            fr = self.free(cs, cat, True)
            if not fr:
                return None
            n = rng.choice(fr)
            cs.lists[n] = cat
            return ["list", n]
        if op == "useL":
            n = rng.choice(sorted(cs.lists))
            cat = cs.lists[n]
            if cat == "prim":
                k, a = PRIMS[base_of(n)]
                v = self.var_of(k)
                if v:
                    vs.append(v)
                return ["prim", k, n, a, v]
            if cat == "sub":
                return self.sub(n, vs, depth, in_blk) if depth < self.maxdepth else None
            if cat == "comp":
                return self.comp(n, vs)
            if cat == "align":
                return ["align", n]
            return None if in_blk else self.blk(n, cs, vs, depth, loopd)
        if op == "sub":
            if in_loop:
                ls = self.lists_of(cs, "sub")
                if not ls:
                    return None
                return self.sub(rng.choice(ls), vs, depth, in_blk)
            fr = self.free(cs, "sub")
            if not fr:
                return None
            n = rng.choice(fr)
            cs.used.add(n)
            return self.sub(n, vs, depth, in_blk)
        if op == "block":
            if in_loop:
                ls = self.lists_of(cs, "blockpad")
                if not ls:
                    return None
                return self.blk(rng.choice(ls), cs, vs, depth, loopd)
            fr = self.free(cs, "blockpad")
            if not fr:
                return None
            n = rng.choice(fr)
            cs.used.add(n)
            return self.blk(n, cs, vs, depth, loopd)
        if op == "type":
            return ["type", rng.choice(TYPE_NAMES)]
        if op == "tcall":
            return ["tcall", rng.choice(TYPE_NAMES), self.block(cs, vs, depth, loopd, in_blk, rng.randint(1, 3), False)]
        if op == "comp":
            fr = self.free(cs, "comp")
            if not fr:
                return None
            n = rng.choice(fr)
            cs.used.add(n)
            return self.comp(n, vs)
        if op == "align":
            fr = self.free(cs, "align")
            if not fr:
                return None
            n = rng.choice(fr)
            cs.used.add(n)
            return ["align", n]
        if op == "if":
            c1, c2 = cs.copy(), cs.copy()
            cond = ["odd", rng.choice(vs)]
            b1 = self.block(c1, list(vs), depth, loopd, in_blk, rng.randint(1, 3), False)
            b2 = self.block(c2, list(vs), depth, loopd, in_blk, rng.randint(0, 3), False)
            cs.used |= c1.used | c2.used | (set(c1.lists) - set(cs.lists)) | (set(c2.lists) - set(cs.lists))
            return ["if", cond, b1, b2]
        if op == "rep":
            cnt = ["varmod", rng.choice(vs), rng.choice([2, 3, 4])] if vs and rng.random() < 0.5 else ["const", rng.choice([0, 1, 2, 2, 3])]
            return ["rep", cnt, self.block(cs, list(vs), depth, loopd + 1, in_blk, rng.randint(1, 3), False)]
        return None

    def sub(self, n, vs, depth, in_blk):
        style = self.rng.choice(["with", "enterleave"])
        return ["sub", n, self.block(CS(), vs, depth + 1, 0, in_blk, self.rng.randint(0, 5), True), style]

    def blk(self, n, cs, vs, depth, loopd):
        spec = self.len_spec(vs)
        return ["block", n, spec, self.block(cs, vs, depth, loopd, True, self.rng.randint(0, 4), False), self.rng.choice(["with", "beginend"])]

    def comp(self, n, vs):
        rng = self.rng
        if vs and rng.random() < 0.6:
            return ["comp", n, ["sum", rng.sample(vs, min(len(vs), rng.randint(1, 3)))]]
        return ["comp", n, ["const", rng.choice([0, -7, 12345, 1 << 70])]]


# ---- the statement templates of the exhaustive small scope (all sequences up to a length, filtered by static_ok)
TEMPLATES = [
    ["prim", "bool", "b0", None, "vb"],
    ["prim", "uint", "u0", None, "vu"],
    ["list", "u0L"],
    ["prim", "uint", "u0L", None, None],
    ["list", "c0L"],
    ["sub", "c0L", [["type", "TA"], ["prim", "uint", "u0", None, None]], "with"],
    ["sub", "c0", [["list", "u0L"], ["prim", "uint", "u0L", None, None], ["type", "TB"], ["prim", "uint", "u0L", None, None]], "enterleave"],
    ["type", "TA"],
    ["type", "TB"],
    ["comp", "_k0", ["const", 99]],
    ["align", "p0"],
    ["block", "q0", ["const", 5], [["prim", "uint", "u1", None, None], ["prim", "bool", "b1", None, None]], "with"],
    ["if", ["odd", "vb"], [["prim", "uint", "u2", None, None]], [["prim", "sint", "s0", None, None]]],
    ["rep", ["const", 2], [["prim", "uint", "u0L", None, None]]],
    ["rep", ["varmod", "vu", 3], [["sub", "c0L", [["tcall", "TB", [["prim", "nbits", "n5", 5, None]]]], "enterleave"]]],
    ["sub", "c1", [["type", "TA"], ["sub", "c0", [["type", "TB"], ["prim", "uint", "u0", None, None], ["type", "TA"]], "with"], ["prim", "uint", "u0", None, None]], "with"],
]


def exhaustive_programs(maxlen):
    out = []
    for n in range(1, maxlen + 1):
        for seq in itertools.product(range(len(TEMPLATES)), repeat=n):
            prog = [TEMPLATES[i] for i in seq]
            if static_ok(prog):
                out.append(prog)
    return out


# ======================================================================================================
# reference walk: program + fresh values -> the description it denotes
# ======================================================================================================
class Leaf(object):
    __slots__ = ("name", "value", "tname", "computed")

    def __init__(self, name, value, tname, computed):
        self.name, self.value, self.tname, self.computed = name, value, tname, computed


class Ctx(object):
    __slots__ = ("entries", "final", "cur", "cond")

    def __init__(self):
        self.entries, self.final, self.cur = {}, None, None
        self.cond = []   # (name, kind, arg) of plain fields guarded by a condition that was false in this run (the branch not taken)


class Lst(object):
    __slots__ = ("items",)

    def __init__(self):
        self.items = []


class RefWalk(object):
    def __init__(self, rng):
        self.rng = rng
        self.pos = 0        # bits really in the stream
        self.rem = None     # bits left in the current bounded block (may go negative), None outside
        self.env = {}
        self.k = 0          # statement executions so far (kept in step with Runner.k)
        self.trace = []     # (k, plain targets used so far in the current description, its declared lists, that description's node)
        self.root = Ctx()
        self.overruns = 0   # values that straddle / lie past the end of a bounded block
        self.nvalues = 0

    def put(self, ctx, name, item):
        if name.endswith("L"):
            ctx.entries[name].items.append(item)
        else:
            if name in ctx.entries:
                raise RuntimeError("generator produced a program that uses %r twice" % name)
            ctx.entries[name] = item

    def emit(self, kind, arg, v):
        bits = ref_encode(kind, arg, v)
        n = len(bits)
        if self.rem is None:
            self.pos += n
            return v
        if n > self.rem:
            self.overruns += 1
            inside = max(0, self.rem)
            v = ref_decode(kind, arg, itertools.chain(bits[:inside], itertools.repeat(1)))
            n = len(ref_encode(kind, arg, v))
            self.pos += inside
        else:
            self.pos += n
        self.rem -= n
        return v

    def value(self, ctx, name, kind, arg):
        rng = self.rng
        cands = [d[name] for d in DEFAULTS.values() if name in d]
        v = rng.choice(cands) if cands and rng.random() < 0.45 else rand_value(rng, kind, arg)
        v = self.emit(kind, arg, v)
        self.nvalues += 1
        self.put(ctx, name, Leaf(name, v, ctx.cur, False))
        return v

    def body(self, stmts, ctx):
        for s in stmts:
            self.stmt(s, ctx)

    def stmt(self, s, ctx):
        self.k += 1
        self.trace.append((self.k, tuple(n for n in ctx.entries if not n.endswith("L")), tuple(n for n in ctx.entries if n.endswith("L")), ctx))
        op = s[0]
        if op == "prim":
            v = self.value(ctx, s[2], s[1], s[3])
            if s[4]:
                self.env[s[4]] = v
        elif op == "list":
            ctx.entries[s[1]] = Lst()
        elif op == "align":
            self.value(ctx, s[1], "bitarray", (-self.pos) % 8)
        elif op == "block":
            self.rem = ev_len(s[2], self.env)
            self.body(s[3], ctx)
            unused = max(0, self.rem)
            self.rem = None
            self.value(ctx, s[1], "bitarray", unused)
        elif op == "sub":
            c = Ctx()
            self.put(ctx, s[1], c)
            self.body(s[2], c)
        elif op == "type":
            ctx.cur = ctx.final = s[1]
        elif op == "tcall":
            ctx.cur = ctx.final = s[1]
            self.body(s[2], ctx)
        elif op == "comp":
            self.put(ctx, s[1], Leaf(s[1], ev_comp(s[2], self.env), ctx.cur, True))
        elif op == "if":
            taken = ev_cond(s[1], self.env)
            ctx.cond += [(t[2], t[1], t[3]) for t in (s[3] if taken else s[2]) if t[0] == "prim" and not t[2].endswith("L")]
            self.body(s[2] if taken else s[3], ctx)
        elif op == "rep":
            for _ in range(ev_count(s[1], self.env)):
                self.body(s[2], ctx)
        else:
            raise ValueError(op)


def ctx_nodes(ctx, path=()):
    """every description node with its path [(target, index or None), ...]"""
    yield path, ctx
    for name, item in ctx.entries.items():
        if isinstance(item, Ctx):
            for x in ctx_nodes(item, path + ((name, None),)):
                yield x
        elif isinstance(item, Lst):
            for i, it in enumerate(item.items):
                if isinstance(it, Ctx):
                    for x in ctx_nodes(it, path + ((name, i),)):
                        yield x


def nav(obj, path):
    for name, i in path:
        obj = obj[name] if i is None else obj[name][i]
    return obj


def cls_of(ctx, typed):
    return TYPES[ctx.final] if (typed and ctx.final) else dict


class Untyped(dict):
    """marks, in an expected tree, a description in which the program sets no type (any dict will do)"""


def node_cls(ctx, mode, rng):
    """class of the object supplied for a description node.  mode: raw (plain dicts) | typed (the type the program sets last) |
    as:<T> (every node in which the program sets a type is supplied as T) | mixed (per node: raw, typed or another type)"""
    if ctx.final is None or mode == "raw":
        return dict
    if mode == "typed":
        return TYPES[ctx.final]
    if mode.startswith("as:"):
        return TYPES[mode[3:]]
    r = rng.random()
    return dict if r < 0.4 else TYPES[ctx.final] if r < 0.75 else TYPES[rng.choice(TYPE_NAMES)]


def default_for(leaf, cls):
    t = TYPES[leaf.tname] if leaf.tname else cls
    return DEFAULTS.get(t, {}).get(leaf.name, _NOPE)


def omittable(leaf, cls):
    dv = default_for(leaf, cls)
    return dv is not _NOPE and type(dv) is type(leaf.value) and dv == leaf.value


def fully_omittable(ctx):
    """may the whole sub-description be absent (it is then created as a plain dict)?"""
    for item in ctx.entries.values():
        its = item.items if isinstance(item, Lst) else [item]
        for it in its:
            if isinstance(it, Ctx):
                if not fully_omittable(it):
                    return False
            elif not it.computed and not omittable(it, dict):
                return False
    return True


def mark_omitted(ctx, omitted):
    for item in ctx.entries.values():
        for it in (item.items if isinstance(item, Lst) else [item]):
            if isinstance(it, Ctx):
                mark_omitted(it, omitted)
            elif not it.computed:
                omitted.add(id(it))


def comp_supply(rng, leaf):
    r = rng.random()
    return _NOPE if r < 0.4 else rng.choice(["junk", -1, None, leaf.value]) if r < 0.85 else leaf.value


def provide(ctx, rng, mode, omit, omitted, drop=None, omit_p=0.7, omit_subs=True):
    """The description handed to the Serialiser.  mode: raw | typed | mixed (per node).  omit: leave out values
    equal to the applicable default (recorded in `omitted`).  drop: a Leaf / Lst to leave out (clause M)."""
    cls = node_cls(ctx, mode, rng)
    d = cls()
    for name, item in ctx.entries.items():
        if isinstance(item, Leaf):
            if item.computed:
                v = comp_supply(rng, item)
                if v is not _NOPE:
                    d[name] = v
            elif item is drop:
                pass
            elif omit and omittable(item, cls) and rng.random() < omit_p:
                omitted.add(id(item))
            else:
                d[name] = item.value
        elif isinstance(item, Ctx):
            if omit and omit_subs and fully_omittable(item) and rng.random() < 0.5:
                mark_omitted(item, omitted)
            else:
                d[name] = provide(item, rng, mode, omit, omitted, drop, omit_p, omit_subs)
        elif item is drop:
            pass
        else:
            items = item.items
            keep = len(items)
            if not items:
                lst = []
            elif isinstance(items[0], Ctx):
                while omit and omit_subs and keep > 0 and fully_omittable(items[keep - 1]) and rng.random() < 0.6:
                    keep -= 1
                    mark_omitted(items[keep], omitted)
                lst = [provide(c, rng, mode, omit, omitted, drop, omit_p, omit_subs) for c in items[:keep]]
            elif items[0].computed:
                keep = rng.randint(0, keep)
                lst = [rng.choice(["junk", it.value]) for it in items[:keep]]
            else:
                if items[-1] is drop:
                    keep -= 1
                else:
                    while omit and keep > 0 and omittable(items[keep - 1], cls) and rng.random() < omit_p:
                        keep -= 1
                        omitted.add(id(items[keep]))
                lst = [it.value for it in items[:keep]]
            if lst or rng.random() < 0.5:
                d[name] = lst
    return d


def expect(ctx, omitted):
    """the reference description (typed) minus the omitted values"""
    d = cls_of(ctx, True)() if ctx.final else Untyped()
    for name, item in ctx.entries.items():
        if isinstance(item, Leaf):
            if id(item) not in omitted:
                d[name] = item.value
        elif isinstance(item, Ctx):
            d[name] = expect(item, omitted)
        else:
            d[name] = [expect(it, omitted) if isinstance(it, Ctx) else it.value for it in item.items if isinstance(it, Ctx) or id(it) not in omitted]
    return d


def diff(obj, exp, path="context"):
    """None if the description `obj` equals the expected one (values by ==, typed descriptions by class)"""
    if isinstance(exp, dict):
        if not isinstance(obj, dict):
            return "%s: %r where a description was expected" % (path, obj)
        if type(exp) is not Untyped and type(obj) is not type(exp):
            return "%s: description has type %s, expected %s" % (path, type(obj).__name__, type(exp).__name__)
        if set(obj.keys()) != set(exp.keys()):
            return "%s: targets %s, expected %s" % (path, sorted(map(str, obj.keys())), sorted(exp.keys()))
        for k in exp:
            r = diff(obj[k], exp[k], "%s[%r]" % (path, k))
            if r:
                return r
        return None
    if isinstance(exp, list):
        if not isinstance(obj, list) or len(obj) != len(exp):
            return "%s: %r, expected a list of %d values" % (path, obj, len(exp))
        for i, (a, b) in enumerate(zip(obj, exp)):
            r = diff(a, b, "%s[%d]" % (path, i))
            if r:
                return r
        return None
    if isinstance(obj, (dict, list)) or not (obj == exp):
        return "%s: %r, expected %r" % (path, obj, exp)
    return None


def plain(x):
    if isinstance(x, dict):
        return {k: plain(v) for k, v in x.items()}
    if isinstance(x, list):
        return [plain(v) for v in x]
    if BA is not None and isinstance(x, BA):
        return x.copy()
    return x


def flatten(x, path, out):
    if isinstance(x, dict):
        for k, v in x.items():
            flatten(v, path + (k,), out)
    elif isinstance(x, list):
        for i, v in enumerate(x):
            flatten(v, path + (i,), out)
    else:
        out[path] = x
    return out


# ======================================================================================================
# driving the real code
# ======================================================================================================
class Runner(object):
    def __init__(self, sd, inj=None):
        self.sd, self.env, self.k, self.inj = sd, {}, 0, inj
        self.in_inj, self.fired, self.snap = False, False, None

    def body(self, stmts):
        for s in stmts:
            self.stmt(s)

    def prim(self, kind, name, arg):
        sd = self.sd
        if kind == "bool":
            return sd.bool(name)
        if kind == "uint":
            return sd.uint(name)
        if kind == "sint":
            return sd.sint(name)
        return getattr(sd, kind)(name, arg)

    def fire(self):
        form, t = self.inj[1], self.inj[2]
        sd = self.sd
        self.snap = plain(sd.context)
        self.fired = self.in_inj = True
        if form == "list":
            sd.declare_list(t)
        elif form == "sub":
            sd.subcontext_enter(t)
        elif form == "comp":
            sd.computed_value(t, 4242)
        elif form == "nbits":
            sd.nbits(t, 3)
        else:
            self.prim(form, t, None)
        self.in_inj = False

    def stmt(self, s):
        self.k += 1
        if self.inj is not None and self.inj[0] == self.k:
            self.fire()
        sd, op = self.sd, s[0]
        if op == "prim":
            v = self.prim(s[1], s[2], s[3])
            if s[4]:
                self.env[s[4]] = v
        elif op == "list":
            sd.declare_list(s[1])
        elif op == "align":
            sd.byte_align(s[1])
        elif op == "block":
            n = ev_len(s[2], self.env)
            if s[4] == "with":
                with sd.bounded_block(s[1], n):
                    self.body(s[3])
            else:
                sd.bounded_block_begin(n)
                self.body(s[3])
                sd.bounded_block_end(s[1])
        elif op == "sub":
            if s[3] == "with":
                with sd.subcontext(s[1]):
                    self.body(s[2])
            else:
                sd.subcontext_enter(s[1])
                self.body(s[2])
                sd.subcontext_leave()
        elif op == "type":
            sd.set_context_type(TYPES[s[1]])
        elif op == "tcall":
            S.serdes.context_type(TYPES[s[1]])(lambda serdes, body: self.body(body))(sd, s[2])
        elif op == "comp":
            sd.computed_value(s[1], ev_comp(s[2], self.env))
        elif op == "if":
            self.body(s[2] if ev_cond(s[1], self.env) else s[3])
        elif op == "rep":
            for _ in range(ev_count(s[1], self.env)):
                self.body(s[2])
        else:
            raise ValueError(op)


class Run(object):
    """outcome of one execution of the real code: .exc is the exception it raised (None if none); every caller
    classifies .exc (expected class / violation), nothing is swallowed"""
    __slots__ = ("exc", "tb", "sd", "runner", "data", "mono")


def run_ser(prog, provided, defaults, monitored=False, inj=None):
    out = Run()
    f = _io.BytesIO()
    w = S.Writer(f)
    args = (w, provided) if defaults is None else (w, provided, defaults)
    sd = S.serdes.MonitoredSerialiser(lambda serdes, target, value: None, *args) if monitored else S.serdes.Serialiser(*args)
    out.sd, out.runner, out.exc, out.tb, out.data, out.mono = sd, Runner(sd, inj), None, None, None, None
    try:
        with sd:
            out.runner.body(prog)
        w.flush()
        out.data = f.getvalue()
    except Exception as e:  # classified by the caller
        out.exc, out.tb = e, traceback.format_exc(limit=-4)
    return out


def run_des(prog, data, monitored=False, inj=None):
    out = Run()
    r = S.Reader(_io.BytesIO(data))
    out.mono = None
    if monitored:
        seen = {}

        def monitor(serdes, target, value):
            now = flatten(serdes.context, (), {})
            if out.mono is None:
                for p, v in seen.items():
                    if p not in now or not (now[p] == v):
                        out.mono = "value at %r was %r, now %r (after reading %r)" % (p, v, now.get(p, "<absent>"), target)
                        break
            seen.clear()
            seen.update(now)
        sd = S.serdes.MonitoredDeserialiser(monitor, r)
    else:
        sd = S.serdes.Deserialiser(r)
    out.sd, out.runner, out.exc, out.tb, out.data = sd, Runner(sd, inj), None, None, None
    try:
        with sd:
            out.runner.body(prog)
    except Exception as e:  # classified by the caller
        out.exc, out.tb = e, traceback.format_exc(limit=-4)
    return out


def exc_str(run):
    return None if run.exc is None else "%s: %s" % (type(run.exc).__name__, str(run.exc)[:300])


# ======================================================================================================
# one case = one program + one reference walk + the experiments of every clause
# ======================================================================================================
CLAUSES = ("R", "U", "W", "M", "X")


class Acc(object):
    def __init__(self):
        self.execs = dict.fromkeys(CLAUSES, 0)
        self.fails = {c: [] for c in CLAUSES}
        self.cov = {}
        self.hashes = set()

    def bump(self, key, n=1):
        self.cov[key] = self.cov.get(key, 0) + n

    def fail(self, clause, ident, prog, what, expected, observed, experiment, provided=None):
        if len(self.fails[clause]) < 3:
            self.fails[clause].append({
                "what": what, "expected": expected, "observed": observed,
                "inputs": {"seed": ident[0], "domain": ident[1], "case": ident[2], "tier": ident[3], "program": prog, "experiment": experiment,
                           "supplied_description": None if provided is None else repr(provided)[:4000],
                           "reproduce": "cd /verif && .venv/bin/python -m bounded.c21_serdes %d %s %d %s" % ident},
            })


def run_case(prog, rng, acc, ident, verbose=False):
    if not static_ok(prog):
        raise RuntimeError("checker error: generated program is not valid: %s" % json.dumps(prog))
    walk = RefWalk(rng)
    walk.body(prog, walk.root)
    root = walk.root
    nodes = list(ctx_nodes(root))
    acc.hashes.add(hashlib.md5(json.dumps(prog).encode()).hexdigest()[:12])
    acc.bump("values in reference descriptions", walk.nvalues)
    acc.bump("values straddling/past a bounded block end", walk.overruns)
    acc.bump("description nodes (root + sub-descriptions)", len(nodes))
    acc.bump("typed sub-descriptions inside list targets", sum(1 for p, c in nodes if p and p[-1][1] is not None and c.final))
    acc.bump("list targets declared inside sub-descriptions", sum(1 for p, c in nodes if p for it in c.entries.values() if isinstance(it, Lst)))
    acc.bump("descriptions whose type is set after a value was already used in them, or set more than once",
             sum(1 for p, c in nodes if c.final and any(it.tname != c.final for e in c.entries.values() for it in (e.items if isinstance(e, Lst) else [e]) if isinstance(it, Leaf))))
    acc.bump("computed values", sum(1 for p, c in nodes for e in c.entries.values() for it in (e.items if isinstance(e, Lst) else [e]) if isinstance(it, Leaf) and it.computed))
    acc.bump("typed descriptions nested in a description of another type",
             sum(1 for p, c in nodes if p and c.final and any(c2.final and c2.final != c.final for p2, c2 in nodes if p2 == p[:-1])))
    full = expect(root, set())
    data_ok = None

    # ---------------------------------------------------------------- R: round trips
    for variant in (0, 1):
        use_defaults = variant == 0
        mode = rng.choice(["raw", "typed", "mixed", "mixed", "as:" + rng.choice(TYPE_NAMES)])
        omitted = set()
        provided = provide(root, rng, mode, use_defaults, omitted)
        exp_info = {"clause": "R", "mode": mode, "default_values": use_defaults, "omitted_values": len(omitted)}
        acc.bump("values left out because a default applies", len(omitted))
        rs = run_ser(prog, provided, DEFAULTS if use_defaults else None, monitored=rng.random() < 0.5)
        acc.execs["R"] += 1
        if verbose:
            print("R%d ser mode=%s defaults=%s omitted=%d -> %s" % (variant, mode, use_defaults, len(omitted), exc_str(rs) or "%d bytes" % len(rs.data)))
        if rs.exc is not None:
            acc.fail("R", ident, prog, "serialising a complete description raised", "no exception", exc_str(rs) + "\n" + rs.tb, exp_info, provided)
            continue
        if rs.runner.env != walk.env:
            acc.fail("R", ident, prog, "a primitive of the Serialiser returned a value other than the described one", repr(walk.env), repr(rs.runner.env), exp_info, provided)
            continue
        d = diff(rs.sd.context, expect(root, omitted))
        if d and omitted and diff(rs.sd.context, full) is None:
            d = None  # an implementation may write the defaults it used back into the description: not constrained by the statement
        if d:
            acc.fail("R", ident, prog, "after serialisation the description tree is not the supplied one retyped (computed values set, omitted values absent)",
                     repr(expect(root, omitted))[:3000], d, exp_info, provided)
            continue
        data_ok = rs.data
        rd = run_des(prog, rs.data, monitored=rng.random() < 0.6)
        acc.execs["R"] += 1
        if verbose:
            print("R%d des -> %s" % (variant, exc_str(rd) or "ok"))
        if rd.exc is not None:
            acc.fail("R", ident, prog, "deserialising the serialised bytes with the same program raised", "no exception", exc_str(rd) + "\n" + rd.tb,
                     dict(exp_info, bytes=list(bytearray(rs.data))), provided)
            continue
        d = diff(rd.sd.context, full)
        if d:
            acc.fail("R", ident, prog, "deserialised description differs from the serialised one", repr(full)[:3000], d,
                     dict(exp_info, bytes=list(bytearray(rs.data))), provided)
            continue
        if rd.runner.env != walk.env:
            acc.fail("R", ident, prog, "a primitive of the Deserialiser returned a value other than the described one", repr(walk.env), repr(rd.runner.env), exp_info, provided)
            continue
        if rd.mono:
            acc.fail("R", ident, prog, "a value already deserialised changed or vanished while deserialising went on", "monotonically growing description", rd.mono, exp_info, provided)

    # ---------------------------------------------------------------- U: unused supplied value
    # three supplies per program: nothing omitted / every omittable value omitted / a random part omitted (default_values given), so that spare
    # values meet 0..n scalars served from the defaults in the same description
    lsts = [(p, n, it) for p, c in nodes for n, it in c.entries.items() if isinstance(it, Lst)]
    for uvar in ("none", "all", "part"):
        mode = rng.choice(["raw", "typed", "mixed"])
        omitted = set()
        provided = provide(root, rng, mode, uvar != "none", omitted, None, 1.0 if uvar == "all" else rng.choice([0.25, 0.5, 0.75]), False)
        dflt = DEFAULTS if (uvar != "none" or rng.random() < 0.5) else None

        def n_om(c):
            return sum(1 for it in c.entries.values() if isinstance(it, Leaf) and id(it) in omitted)
        if lsts and rng.random() < 0.35:
            p, name, lst = rng.choice(lsts)
            holder = nav(provided, p)
            cat = cat_of(name)
            if cat == "comp":
                holder[name] = ["junk"] * (len(lst.items) + 1)
            elif cat == "prim":
                holder[name] = [it.value for it in lst.items] + [rand_value(rng, *PRIMS[base_of(name)])]   # complete (nothing left to the defaults) plus one
            else:
                cur = holder.get(name)
                if cur is None:
                    holder[name] = cur = []
                if cat == "sub":
                    cur.append({} if rng.random() < 0.5 or not cur else plain(cur[-1]))
                else:
                    cur.append(BA())
            exp_info = {"clause": "U", "mode": mode, "omission": uvar, "extra": "one more element in list target %r of the description at %r" % (name, list(p))}
        else:
            with_om = [(p, c) for p, c in nodes if n_om(c)]
            with_cond = [(p, c) for p, c in nodes if any(n not in c.entries for n, _k, _a in c.cond)]
            r = rng.random()
            p, c = rng.choice(with_cond) if with_cond and r < 0.35 else rng.choice(with_om) if with_om and r < 0.8 else rng.choice(nodes)
            holder = nav(provided, p)
            guarded = {n: (k, a) for n, k, a in c.cond if n not in c.entries}
            pool = sorted(guarded) + SPARE if rng.random() < 0.7 else SPARE + sorted(guarded)
            keys = pool[:rng.randint(1, 3)]
            for key in keys:
                holder[key] = rand_value(rng, *guarded[key]) if key in guarded else rng.choice([0, b"x", True, {"zz1": 1}, [1, 2], None])
            acc.bump("U spare values=%d (of which guarded by a false condition=%d) vs scalars of the same description served from default_values=%d"
                     % (len(keys), sum(k in guarded for k in keys), min(3, n_om(c))))
            exp_info = {"clause": "U", "mode": mode, "omission": uvar, "extra": "never-used key(s) %r in the description at %r (depth %d%s)"
                        % (keys, list(p), len(p), ", list-held" if any(i is not None for _n, i in p) else ""),
                        "scalars_of_that_description_served_from_defaults": n_om(c)}
        rs = run_ser(prog, provided, dflt)
        acc.execs["U"] += 1
        if verbose:
            print("U[%s] %s -> %s" % (uvar, exp_info["extra"], exc_str(rs)))
        if not isinstance(rs.exc, S.exc.UnusedTargetError):
            acc.fail("U", ident, prog, "serialisation of a description holding an unused value must fail with UnusedTargetError", "UnusedTargetError",
                     exc_str(rs) or "no exception", exp_info, provided)

    # ---------------------------------------------------------------- M: missing needed value
    for _ in range(2):
        mode = rng.choice(["raw", "typed", "as:TA", "as:TA2", "as:TB", "as:D"])
        use_defaults = rng.random() < 0.6
        cands = []
        for p, c in nodes:
            cls = node_cls(c, mode, None)
            for name, it in c.entries.items():
                if isinstance(it, Leaf):
                    if not it.computed and not (use_defaults and default_for(it, cls) is not _NOPE):
                        cands.append((p, name, it, "KeyError"))
                elif isinstance(it, Lst) and it.items and isinstance(it.items[0], Leaf) and not it.items[0].computed:
                    if not (use_defaults and default_for(it.items[-1], cls) is not _NOPE):
                        cands.append((p, name, it.items[-1], "ListTargetExhaustedError"))
                    if not (use_defaults and default_for(it.items[0], cls) is not _NOPE):
                        cands.append((p, name, it, "ListTargetExhaustedError"))
        if not cands:
            break
        p, name, drop, want = rng.choice(cands)
        provided = provide(root, rng, mode, use_defaults and rng.random() < 0.6, set(), drop, rng.choice([0.5, 1.0]), False)   # other values may be left to the defaults
        exp_info = {"clause": "M", "mode": mode, "default_values": use_defaults,
                    "removed": "%s %r of the description at %r" % ("whole list target" if isinstance(drop, Lst) else "last element of list target" if name.endswith("L") else "target", name, list(p))}
        rs = run_ser(prog, provided, DEFAULTS if use_defaults else None)
        acc.execs["M"] += 1
        if verbose:
            print("M %s -> %s" % (exp_info["removed"], exc_str(rs)))
        ok = isinstance(rs.exc, S.exc.ListTargetExhaustedError) if want == "ListTargetExhaustedError" else \
            (isinstance(rs.exc, KeyError) and not isinstance(rs.exc, S.exc.ListTargetExhaustedError))
        if not ok:
            acc.fail("M", ident, prog, "serialisation of a description lacking a needed value (no default applies) must fail", want, exc_str(rs) or "no exception", exp_info, provided)

    # ---------------------------------------------------------------- W: a supplied value of the wrong shape
    int_leaves = [(p, n, it) for p, c in nodes for n, it in c.entries.items() if isinstance(it, Leaf) and not it.computed and cat_of(n) == "prim" and PRIMS[n][0] in INT_SHAPED]
    int_lists = [(p, n, it) for p, n, it in lsts if it.items and cat_of(n) == "prim" and PRIMS[base_of(n)][0] in INT_SHAPED]
    duck_leaves = [(p, n, it) for p, c in nodes for n, it in c.entries.items() if isinstance(it, Leaf) and not it.computed and cat_of(n) == "prim" and PRIMS[n][0] not in INT_SHAPED]
    subs = [(p, c) for p, c in nodes if p]
    for _ in range(2):
        forms = (["list<-nonlist"] * 3 if lsts else []) + (["int<-container"] if int_leaves else []) + (["intelem<-container"] if int_lists else []) + \
                (["sub<-nondict"] * 2 if subs else []) + (["sub<-emptyiterable"] if subs and rng.random() < 0.3 else []) + (["duck<-container"] if duck_leaves and rng.random() < 0.3 else [])
        if not forms:
            break
        form = rng.choice(forms)
        mode = rng.choice(["raw", "typed", "mixed"])
        w_omit = form in ("list<-nonlist", "sub<-nondict") and rng.random() < 0.5   # also among values left to the defaults
        provided = provide(root, rng, mode, w_omit, set(), None, rng.choice([0.5, 1.0]), False)
        want, conclusive = None, True
        if form == "list<-nonlist":
            p, name, lst = rng.choice(lsts)
            v = rng.choice([0, 1, None, False, True, b"", b"x", BA(), BA("1"), "", "x", {}, {"zz0": 1}, 2.5, (), (1,)])
            nav(provided, p)[name] = v
            loc = p + ((name, None),)
            want = S.exc.ListTargetContainsNonListError
            where = "list target %r (used %d times) of the description at %r" % (name, len(lst.items), list(p))
        elif form == "int<-container":
            p, name, leaf = rng.choice(int_leaves)
            v = rng.choice([[], [leaf.value], [1, 2], {}, {"zz0": 1}, (3,)])
            nav(provided, p)[name] = v
            loc = p + ((name, None),)
            where = "integer target %r of the description at %r" % (name, list(p))
        elif form == "intelem<-container":
            p, name, lst = rng.choice(int_lists)
            i = rng.randrange(len(lst.items))
            v = rng.choice([[], [lst.items[i].value], {}, {"zz0": 1}])
            nav(provided, p)[name][i] = v
            loc = p + ((name, i),)
            where = "element %d of integer list target %r of the description at %r" % (i, name, list(p))
        elif form == "duck<-container":
            # bool / bitarray / bytes targets: the io layer is duck-typed (any truthy object, any sequence of bits / of byte values); documentation silent
            p, name, leaf = rng.choice(duck_leaves)
            v = rng.choice([[], [1], {}, {"zz0": 1}])
            nav(provided, p)[name] = v
            loc = p + ((name, None),)
            conclusive = False
            where = "%s target %r of the description at %r" % (PRIMS[name][0], name, list(p))
        else:
            p, c = rng.choice(subs)
            if form == "sub<-emptyiterable":
                # an empty iterable is what the dict constructor / the completeness loop take for an empty description; documentation silent
                v = rng.choice([b"", "", BA(), [], ()])
                conclusive = False
            else:
                v = rng.choice([0, 1, None, False, True, b"x", "x", BA("1"), [1], 2.5, (1,)])
            holder = nav(provided, p[:-1])
            if p[-1][1] is None:
                holder[p[-1][0]] = v
            else:
                holder[p[-1][0]][p[-1][1]] = v
            loc = p
            where = "sub-description at %r" % (list(p),)
        exp_info = {"clause": "W", "mode": mode, "form": form, "other_values_left_to_defaults": w_omit, "wrong_value": repr(v), "where": where}
        rs = run_ser(prog, provided, DEFAULTS if (w_omit or rng.random() < 0.5) else None)
        acc.execs["W"] += 1
        outcome = exc_str(rs) or "no exception"
        lost = None
        if rs.exc is None:
            rd = run_des(prog, rs.data)
            acc.execs["W"] += 1
            if rd.exc is not None:
                lost = "the Deserialiser then rejects the written bytes: " + exc_str(rd)
            else:
                try:
                    back = nav(rd.sd.context, loc)
                except (KeyError, IndexError, TypeError):  # the checker's own navigation of the deserialised tree
                    back = "<nothing>"
                if not _same_plain(back, v):
                    lost = "deserialising the written bytes gives %r at that place" % (back,)
        if verbose:
            print("W %s %r at %s -> %s%s" % (form, v, where, outcome, "; " + lost if lost else ""))
        if not conclusive:
            acc.bump("W inconclusive (documentation silent, not asserted): %s -> %s" % (form, "raised" if rs.exc is not None else "accepted, round trip differs" if lost else "accepted, round trip equal"))
            continue
        acc.bump("W %s" % form)
        if want is not None:
            if not isinstance(rs.exc, want):
                acc.fail("W", ident, prog, "a non-list value supplied for a target the program declares as a list must be rejected with ListTargetContainsNonListError",
                         "ListTargetContainsNonListError", outcome + ("; " + lost if lost else ""), exp_info, provided)
        elif rs.exc is None and lost:
            acc.fail("W", ident, prog, "serialisation of a description holding a value of the wrong shape reported success although the value is not what the bytes describe",
                     "an exception, or bytes that deserialise to the supplied description", "no exception; " + lost, exp_info, provided)

    # ---------------------------------------------------------------- X: re-use of a target
    # the same injected program is run on both sides; both must reject it, at the injected statement
    points = [t for t in walk.trace if t[1] or t[2]]
    for variant in ("any", "defaulted"):
        if not points or data_ok is None:
            continue
        if variant == "any":
            k, plains, lists, _c = rng.choice(points)
            if plains and (not lists or rng.random() < 0.75):
                inj = (k, rng.choice(["bool", "uint", "nbits", "list", "sub", "comp"]), rng.choice(plains))
            else:
                inj = (k, "list", rng.choice(lists))
            provided = provide(root, rng, rng.choice(["raw", "typed", "mixed"]), False, set())
            dflt = DEFAULTS if rng.random() < 0.3 else None
        else:
            # a plain target that is absent from the supplied description because a default applies: its second use / declare_list / ... after
            # the use that took the default must be rejected like any other
            omitted = set()
            mode = rng.choice(["raw", "typed", "mixed"])
            provided = provide(root, rng, mode, True, omitted, None, 1.0)
            cands = [(k, n, c) for k, plains, lists, c in points for n in plains if isinstance(c.entries[n], Leaf) and id(c.entries[n]) in omitted]
            if not cands:
                continue
            k, n, c = rng.choice(cands)
            kind = PRIMS[n][0]
            inj = (k, rng.choice(["same", "same", "list", "list", "sub", "comp", "uint"]), n)
            if inj[1] == "same":
                inj = (k, kind if kind in ("bool", "uint", "sint") else "nbits", n)
            dflt = DEFAULTS
            acc.bump("re-use injected on a target filled from default_values")
        exp_info = {"clause": "X", "variant": variant, "before_statement_execution": k, "injected": "%s on already used target %r" % (inj[1], inj[2]), "default_values": dflt is not None}
        runs = {"ser": run_ser(prog, provided, dflt, inj=inj)}
        acc.execs["X"] += 1
        # bytes for the Deserialiser: what the Serialiser wrote if it accepted the program, else the stream of the valid program
        data = runs["ser"].data if runs["ser"].exc is None else data_ok
        runs["des"] = run_des(prog, data + b"\xff" * 8, inj=inj)
        acc.execs["X"] += 1
        verdict = {}
        for side in ("ser", "des"):
            r = runs[side]
            verdict[side] = "rejected" if (r.runner.fired and isinstance(r.exc, S.exc.ReusedTargetError) and r.runner.in_inj) else \
                "not reached: " + (exc_str(r) or "run ended") if not r.runner.fired else "accepted" if r.exc is None else "accepted, later: " + exc_str(r)
        if verbose:
            print("X %s %s -> ser %s / des %s" % (variant, exp_info["injected"], verdict["ser"], verdict["des"]))
        for side in ("ser", "des"):
            r = runs[side]
            if not r.runner.fired:
                # the reference walk reaches statement execution k; the real run did not: it raised earlier, or its primitives returned
                # other values than the described ones so that the program took another path
                acc.fail("X", ident, prog, "the run of a valid program on a valid description/stream did not reach the statement execution at which the second use was injected (%s)" % side,
                         "same control flow as the reference walk, no exception before the injected statement",
                         (exc_str(r) + "\n" + r.tb) if r.exc is not None else "run ended without exception after %d statement executions; variables %r, expected %r" % (r.runner.k, r.runner.env, walk.env),
                         dict(exp_info, side=side), provided)
                break
            if verdict[side] != "rejected":
                acc.fail("X", ident, prog, "using an already used target again must raise ReusedTargetError at that statement, in the Serialiser and in the Deserialiser alike",
                         "ReusedTargetError at the injected statement on both sides", "Serialiser: %s; Deserialiser: %s" % (verdict["ser"], verdict["des"]), dict(exp_info, side=side), provided)
                break
            if side == "des" and diff(plain(r.sd.context), r.runner.snap) is not None:
                acc.fail("X", ident, prog, "the rejected second use of a target changed the description deserialised so far", repr(r.runner.snap)[:2000],
                         diff(plain(r.sd.context), r.runner.snap), dict(exp_info, side=side), provided)


INT_SHAPED = ("nbits", "uint_lit", "uint", "sint")


def _same_plain(a, b):
    try:
        return bool(plain(a) == plain(b))
    except Exception:  # comparison of ill-shaped values (this is the checker's own comparison, not the code under check)
        return False


# ======================================================================================================
# V: the real VC-2 programs with flag-guarded fields (bitstream/vc2.py), serialised with the library's own
# default values (vc2_fixeddicts.vc2_default_values): the flag is left to its default (False) or given as
# False, one or more of the fields it guards are supplied -> they are never used -> UnusedTargetError
# ======================================================================================================
VC2_GUARDED = [("FrameSize", "frame_size", "frame_size"), ("ColorDiffSamplingFormat", "color_diff_sampling_format", "color_diff_sampling_format"),
               ("ScanFormat", "scan_format", "scan_format"), ("FrameRate", "frame_rate", "frame_rate"), ("PixelAspectRatio", "pixel_aspect_ratio", "pixel_aspect_ratio"),
               ("CleanArea", "clean_area", "clean_area"), ("SignalRange", "signal_range", "signal_range"), ("ColorSpec", "color_spec", "color_spec"),
               ("ColorPrimaries", "color_primaries", None), ("ColorMatrix", "color_matrix", None), ("TransferFunction", "transfer_function", None),
               ("ExtendedTransformParameters", "extended_transform_parameters", None), ("QuantMatrix", "quant_matrix", None)]


def vc2_family(rep):
    from vc2_conformance.bitstream import vc2, vc2_fixeddicts as fd
    from vc2_data_tables import BaseVideoFormats

    dv = fd.vc2_default_values
    Unused = S.exc.UnusedTargetError
    runs = bad = 0
    samples = []

    def ser(call, desc):
        w = S.Writer(_io.BytesIO())
        try:
            with S.serdes.Serialiser(w, desc, dv) as sd:
                call(sd)
            return None
        except Exception as e:  # classified by the caller
            return e

    def report(name, what, inputs, expected, e):
        nonlocal bad
        bad += 1
        if bad <= 3:
            rep.violation("c21-V-%s" % name, {"what": what, "inputs": inputs, "expected": expected,
                                              "observed": "no exception" if e is None else "%s: %s" % (type(e).__name__, str(e)[:300])})

    for tname, fname, parent_key in VC2_GUARDED:
        T, f = getattr(fd, tname), getattr(vc2, fname)
        D = dv[T]
        flags = [k for k in T.entry_objs if D.get(k) is False]
        guarded = [k for k in T.entry_objs if k not in flags]
        if not flags or not guarded:
            raise RuntimeError("checker error: %s has no flag-guarded field any more" % tname)
        state = {"dwt_depth": 0, "dwt_depth_ho": 0}

        def value(k):
            return [1, 2] if (tname, k) == ("QuantMatrix", "quant_matrix") else D[k] if k in D else {}
        if tname in ("ExtendedTransformParameters", "QuantMatrix"):
            direct = lambda sd, f=f: f(sd, dict(state))
        else:
            direct = lambda sd, f=f: f(sd, dict(state), {})
        # control: flags true and every guarded field supplied (custom index 0 where an index selects a preset) serialises
        good = T(dict({k: True for k in flags}, **{k: value(k) for k in guarded if k in D}))
        if "index" in good and tname in ("FrameRate", "PixelAspectRatio", "SignalRange", "ColorSpec"):
            good["index"] = 0
        if tname == "QuantMatrix":
            good["quant_matrix"] = [1]
        runs += 1
        e = ser(direct, good)
        if e is not None:
            report("control-" + tname, "a complete %s description (flags true, every guarded field supplied) must serialise" % tname, {"type": tname, "description": repr(good)}, "no exception", e)
        for n in range(1, len(guarded) + 1):
            for sub in itertools.combinations(guarded, n):
                for explicit in (False, True):
                    def make():
                        d = T({k: value(k) for k in sub})
                        if explicit:
                            for k in flags:
                                d[k] = False
                        return d
                    routes = [("direct", direct, make())]
                    if parent_key:
                        routes.append(("inside source_parameters", lambda sd: vc2.source_parameters(sd, dict(state), BaseVideoFormats.custom_format), fd.SourceParameters({parent_key: make()})))
                    elif tname in ("ColorPrimaries", "ColorMatrix", "TransferFunction"):
                        routes.append(("inside color_spec (custom, index 0)", lambda sd: vc2.color_spec(sd, dict(state), {}),
                                       fd.ColorSpec(custom_color_spec_flag=True, index=0, **{fname: make()})))
                    for route, call, desc in routes:
                        shown = repr(desc)
                        runs += 1
                        e = ser(call, desc)
                        if len(samples) < 3 and route != "direct":
                            samples.append({"program": route, "description": shown})
                        if not isinstance(e, Unused):
                            report("%s-%s" % (tname, "-".join(sub)), "%s: field(s) %s supplied while the guarding flag is %s must make serialisation with vc2_default_values fail with UnusedTargetError"
                                   % (tname, list(sub), "given as False" if explicit else "left to its default (False)"),
                                   {"type": tname, "program": "vc2.%s, %s" % (fname, route), "description": shown, "default_values": "vc2_fixeddicts.vc2_default_values"}, "UnusedTargetError", e)
    rep.add_bounded("real VC-2 programs: a flag-guarded field supplied while its flag is false / defaulted -> UnusedTargetError [vc2 family]",
                    "exhaustive over the table: %d fixeddict types of bitstream/vc2_fixeddicts.py with flag-guarded fields x every non-empty subset of the guarded fields x flag {absent (default False), "
                    "explicit False} x {the type's own program, nested in source_parameters / color_spec}; vc2_default_values; plus one control per type (flags true, complete) that must serialise"
                    % len(VC2_GUARDED), runs, True, distinct=runs, samples=samples)


# ======================================================================================================
# G: the U x DEFAULTS interaction as a complete small table (the random domain reaches the cells with 2..3 defaulted scalars only rarely)
# ======================================================================================================
G_TABLE = {  # type: (flag whose default makes the condition false, defaulted scalars, fields guarded by the flag, a scalar without default)
    "TA": ("u1", ["u0", "s0", "n5"], ["u2", "u3", "b2"], "l2"),
    "TB": ("b0", ["u0", "s1", "l2"], ["u1", "u3", "b2"], "l1"),
    "D": ("b2", ["u3", "s0"], ["u0", "u1", "b0"], "l1"),
    "TA2": ("b1", ["u0", "n12"], ["u2", "u3", "b2"], "l1"),
}


def guarded_family(rep, seed):
    rng = random.Random("c21/G/%d" % seed)
    runs = bad = 0
    cells = set()
    for tname, (flag, dnames, gnames, xname) in sorted(G_TABLE.items()):
        T = TYPES[tname]
        D = DEFAULTS[T]
        prim = lambda n, var=None: ["prim", PRIMS[n][0], n, PRIMS[n][1], var]
        body = [["type", tname], prim(flag, "f"), ["if", ["odd", "f"], [prim(g) for g in gnames], []]] + [prim(d) for d in dnames] + [prim(xname)]
        if not static_ok(body) or int(D[flag]) & 1 or any(d not in D for d in dnames) or xname in D:
            raise RuntimeError("checker error: G_TABLE row %s is not what it claims" % tname)
        for depth in ("root", "nested", "list-held"):
            prog = body if depth == "root" else [["sub", "c0", body, "with"]] if depth == "nested" else \
                [["list", "c0L"], ["sub", "c0L", [["type", "TB"], prim("u3")], "enterleave"], ["sub", "c0L", body, "with"]]
            for j in range(0, len(dnames) + 1):
                for flag_given in (False, True):
                    for typed in (False, True):
                        for k in range(0, 4):
                            for spare_kind in (("guarded", "spare", "mixed") if k else ("none",)):
                                inner = (T if typed else dict)()
                                if flag_given:
                                    inner[flag] = D[flag]
                                for d in dnames[j:]:
                                    inner[d] = D[d] + 1 if d != "s0" else 9          # supplied, different from the default
                                inner[xname] = 77
                                keys = (gnames if spare_kind == "guarded" else SPARE if spare_kind == "spare" else [gnames[0]] + SPARE)[:k]
                                for key in keys:
                                    inner[key] = rand_value(rng, *PRIMS[key]) if key in PRIMS else rng.choice([0, None, b"x", {"zz1": 1}])
                                desc = inner if depth == "root" else {"c0": inner} if depth == "nested" else {"c0L": [{"u3": 5}, inner]}
                                shown = repr(desc)
                                rs = run_ser(prog, desc, DEFAULTS)
                                runs += 1
                                cells.add((k, j + (0 if flag_given else 1)))
                                ok = rs.exc is None if k == 0 else isinstance(rs.exc, S.exc.UnusedTargetError)
                                if not ok:
                                    bad += 1
                                    if bad <= 3:
                                        rep.violation("c21-G-%d" % bad, {
                                            "what": "a description with %d never-used value(s) %r next to %d scalar(s) served from default_values (flag %s) %s"
                                                    % (k, keys, j + (0 if flag_given else 1), "given" if flag_given else "defaulted",
                                                       "must make serialisation fail with UnusedTargetError" if k else "is complete and must serialise"),
                                            "inputs": {"program": prog, "supplied_description": shown, "default_values": "DEFAULTS of bounded/c21_serdes.py", "depth": depth, "type": tname},
                                            "expected": "UnusedTargetError" if k else "no exception", "observed": exc_str(rs) or "no exception"})
    rep.add_bounded("never-used values next to scalars served from default_values, complete table [guarded-field family]",
                    "exhaustive over the table: 4 context types x {root, nested, list-held} x 0..3 defaulted scalars omitted x flag {given false, defaulted false} x supplied {raw, typed} x "
                    "0..3 never-used values (fields guarded by the false flag / spare names / mixed; 0 = control, must serialise); cells (never-used, defaulted) covered: %s" % sorted(cells),
                    runs, True, distinct=runs, samples=[])


def case_program(domain, idx, seed, tier, rng):
    if domain == "exhaustive":
        return exhaustive_programs(3 if tier == "quick" else 4)[idx]
    budgets = [6, 10, 16, 22, 30] if tier == "quick" else [6, 10, 16, 22, 30, 45, 60]
    return Gen(rng, rng.choice(budgets), 3 if tier == "quick" else rng.choice([3, 4])).program()


def case_rng(seed, domain, idx):
    return random.Random("c21/%d/%s/%d" % (seed, domain, idx))


_EXH = {}


def _work(task):
    domain, seed, tier, lo, hi = task
    acc = Acc()
    if domain == "exhaustive" and tier not in _EXH:
        _EXH[tier] = exhaustive_programs(3 if tier == "quick" else 4)
    for idx in range(lo, hi):
        rng = case_rng(seed, domain, idx)
        prog = _EXH[tier][idx] if domain == "exhaustive" else case_program(domain, idx, seed, tier, rng)
        run_case(prog, rng, acc, (seed, domain, idx, tier))
    return domain, acc.execs, acc.fails, acc.cov, acc.hashes


def check(rep, tier, seed):
    _setup()
    t0 = time.time()
    nrand = QUICK_CASES if tier == "quick" else THOROUGH_CASES
    maxlen = 3 if tier == "quick" else 4
    nexh = len(exhaustive_programs(maxlen))
    _EXH[tier] = exhaustive_programs(maxlen)
    rep.add_eval_fact("the program generator's statement templates are statically valid and the exhaustive scope is non-trivial (%d valid sequences)" % nexh,
                      nexh > 300, "%d" % nexh)
    tasks = []
    for domain, n, step in (("random", nrand, 125), ("exhaustive", nexh, 100)):
        tasks += [(domain, seed, tier, lo, min(n, lo + step)) for lo in range(0, n, step)]
    pool = multiprocessing.get_context("fork").Pool(WORKERS)
    try:
        results = pool.map_async(_work, tasks, chunksize=1).get(timeout=600 if tier == "quick" else 3600)
    except multiprocessing.TimeoutError:
        pool.terminate()
        raise RuntimeError("C21 bounded check did not finish in time (non-terminating call in the code under check, or overloaded machine)")
    finally:
        pool.close()
    tot = {d: {"execs": dict.fromkeys(CLAUSES, 0), "fails": {c: [] for c in CLAUSES}, "cov": {}, "hashes": set()} for d in ("random", "exhaustive")}
    for domain, execs, fails, cov, hashes in results:
        t = tot[domain]
        for c in CLAUSES:
            t["execs"][c] += execs[c]
            t["fails"][c] += fails[c]
        for k, v in cov.items():
            t["cov"][k] = t["cov"].get(k, 0) + v
        t["hashes"] |= hashes
    names = {"R": "round trip (serialise, deserialise with the same program; tree retyped consistently; never overwrites)",
             "U": "an unused supplied value makes serialisation fail (UnusedTargetError)",
             "M": "a missing needed value makes serialisation fail (KeyError / ListTargetExhaustedError)",
             "W": "a supplied value of the wrong shape is rejected (non-list for a list target: ListTargetContainsNonListError), never silently dropped",
             "X": "a second use of a target (incl. one filled from default_values) raises ReusedTargetError in Serialiser and Deserialiser alike and changes nothing"}
    domains = {"random": "seeded random programs: %d programs (statement budget %s, nesting <= %d, loop counts <= 3, bounded blocks 0..40 bits), seed %d; "
                         "per program 2 experiments of this clause" % (nrand, "6..30" if tier == "quick" else "6..60", 3 if tier == "quick" else 4, seed),
               "exhaustive": "exhaustive: all %d valid statement sequences of length <= %d over the %d templates (values seeded); per program 2 experiments of this clause"
                             % (nexh, maxlen, len(TEMPLATES))}
    for domain in ("random", "exhaustive"):
        t = tot[domain]
        for c in CLAUSES:
            fl = sorted(t["fails"][c], key=lambda f: (len(json.dumps(f["inputs"]["program"])), f["inputs"]["case"]))[:3]
            for i, f in enumerate(fl):
                rep.violation("c21-%s-%s-%d" % (c, domain, i), f)
            rep.add_bounded("%s [%s]" % (names[c], domain), domains[domain], t["execs"][c], False,
                            distinct=len(t["hashes"]),
                            samples=([TEMPLATES[12], TEMPLATES[14]] if domain == "exhaustive" else [case_program("random", i, seed, tier, case_rng(seed, "random", i)) for i in (0, 1)]) if c == "R" else [],
                            note="executions = runs of the real Serialiser/Deserialiser; distinct = distinct programs")
        for k, v in sorted(t["cov"].items()):
            rep.extra_coverage["C21 %s: %s" % (domain, k)] = v
    vc2_family(rep)
    guarded_family(rep, seed)
    rep.extra_coverage["C21 wall seconds"] = round(time.time() - t0, 1)


REGISTER = {
    "C21": dict(
        extra=[check],
        level="other",
        assumptions=[
            "BOUNDED (not proved): serdes programs are sampled (seeded) up to the stated statement budget / nesting depth, plus all statement sequences up to the stated "
            "length over 16 templates; values are sampled; nothing is claimed beyond these scopes",
            "TRUSTED reference: the checker's own description builder and its exp-Golomb / fixed-width bit codec written from SMPTE ST 2042-1 annex A.3/A.4 "
            "(used to decide which values are valid inside a bounded block and how many padding bits are asked for)",
            "the bit-level primitives of bitstream/io.py are used as they are (their own contract is property C20); byte-exact stream contents are not asserted here",
            "descriptions are compared by == on values and by class on typed (set_context_type) descriptions; programs never nest bounded blocks (the io layer forbids it)",
        ],
        manifest=dict(
            category="other",
            technique="bounded: seeded random + small-scope exhaustive serdes programs run on the real Serialiser/Deserialiser against an independent reference "
                      "walk that builds the denoted description; fault injection on the supplied description (unused / missing value) and on the program (re-used target)",
            text="For every generated program (primitive fields, list targets, nested and listed sub-descriptions, bounded blocks with values straddling the end and trailing "
                 "padding, byte alignment, computed values, data-dependent if/repeat, context types set at any point incl. nested types inside lists, default-value lookups "
                 "per type incl. list elements and wholly defaulted sub-descriptions): serialise then deserialise yields the reference description with the right "
                 "types; an unused supplied value -> UnusedTargetError; a missing needed value -> KeyError/ListTargetExhaustedError; a second use of a target -> "
                 "ReusedTargetError with the description unchanged; deserialised values never change once read.",
            note="A bounded stand-in: sampled programs and values, never counted as proved.",
        ),
    )
}


if __name__ == "__main__":
    _seed, _domain, _idx, _tier = int(sys.argv[1]), sys.argv[2], int(sys.argv[3]), (sys.argv[4] if len(sys.argv) > 4 else "quick")
    _setup()
    _rng = case_rng(_seed, _domain, _idx)
    _prog = case_program(_domain, _idx, _seed, _tier, _rng)
    print(json.dumps(_prog))
    _acc = Acc()
    run_case(_prog, _rng, _acc, (_seed, _domain, _idx, _tier), verbose=True)
    for _c in CLAUSES:
        for _f in _acc.fails[_c]:
            print("FAIL", _c, _f["what"], "\n  expected:", _f["expected"], "\n  observed:", _f["observed"], "\n  experiment:", _f["inputs"]["experiment"])
    print("executions", _acc.execs)
